"""C03 - no public operation panics (Engine M part: every assert terminator / explicit panic / unreachable!() of the
encoded integer functions is a proof obligation over the *whole* input domain their public callers can pass)."""
from mirsmt.terms import *
from mirsmt import symex
from . import refs as R
from .c07 import TIME_FIELDS
from .c01 import cyc_day

I32 = (-(1 << 31), (1 << 31) - 1)


def date_new_any_year(io, overflow):
    """PlainDate::new / try_new -> IsoDate::new_with_overflow accepts any i32 year, any u8 month/day"""
    y = io.int("y", "i32", *I32)
    m = io.int("m", "u8", 0, 255)
    d = io.int("day", "u8", 0, 255)
    ov = symex.Enum(overflow, {overflow: []}, "ArithmeticOverflow")
    io.call(("IsoDate", None, "new_with_overflow"), [y, m, d, ov],
            native=("iso_date_new_with_overflow", ("result", ("agg", ["i32", "u8", "u8"])), [y, m, d, symex.Int(overflow, "u8")]))
    io.witness("C03.date_new.reach")
    io.obligations("C03.date_new")


def from_epoch_nanos(io):
    """IsoDateTime::from_epoch_nanos for every instant in range and every offset a provider may report (|offset| <= 10^15 ns)"""
    # every instant, written uniquely as ns = NS_DAY * day + tod with the day cycle-decomposed (see specs/c01.py)
    day = cyc_day(io, -R.DAY_MAX, R.DAY_MAX)
    tod = io.int("tod", "i64", 0, R.NS_DAY - 1)
    ns = symex.Int(add(mul(R.NS_DAY, day.t), tod.t), "i128")
    io.assume(and_(le(-R.NS_MAX, ns.t), le(ns.t, R.NS_MAX)))
    off = io.int("offset", "i64", -10**15, 10**15)
    r = io.call(("IsoDateTime", None, "from_epoch_nanos"), [io.ref(symex.Agg([ns])), off],
                native=("iso_date_time_from_epoch_nanos", ("result", ("agg", [("agg", ["i32", "u8", "u8"]), ("agg", ["u8", "u8", "u8", "u16", "u16", "u16"])])), [ns, off]))
    io.witness("C03.from_epoch_nanos.reach")
    io.prove("C03.from_epoch_nanos.never_an_internal_error", eq(r.d, 0))
    io.obligations("C03.from_epoch_nanos")


def max_rounding_increment(io):
    """Unit::to_maximum_rounding_increment is a public fn: every Unit value, including Auto"""
    u = io.cenum("unit", "Unit", list(range(11)))
    io.call(("Unit", None, "to_maximum_rounding_increment"), [u], native=("unit_max_increment", ("option", "u32")))
    io.witness("C03.max_increment.reach")
    io.obligations("C03.max_increment")


def add_date_any_duration(io, overflow):
    """AddISODate with every duration Duration::new admits (|years|,|months|,|weeks| < 2^32, |days| <= 1.05e11):
    PlainDate::add / PlainDateTime::add / PlainYearMonth::add all funnel into IsoDate::add_date_duration"""
    from .c04 import any_date, date_duration
    y, m, d = any_date(io)
    lim = (1 << 32) - 1
    yrs = io.flt("years", -lim, lim)
    mos = io.flt("months", -lim, lim)
    wks = io.flt("weeks", -lim, lim)
    dys = io.flt("days", -104_249_991_374, 104_249_991_374)
    ov = symex.Enum(overflow, {overflow: []}, "ArithmeticOverflow")
    io.call(("IsoDate", None, "add_date_duration"), [symex.Agg([y, m, d]), io.ref(date_duration(yrs, mos, wks, dys)), ov],
            native=("iso_date_add_date_duration", ("result", ("agg", ["i32", "u8", "u8"])),
                    [y, m, d, yrs, mos, wks, dys, symex.Int(overflow, "u8")]))
    io.witness("C03.add_date.reach")
    io.obligations("C03.add_date")


def jobs(tier, seed):
    return [
        ("date_new_any_year[overflow=0]", date_new_any_year, {"overflow": 0}, None),
        ("date_new_any_year[overflow=1]", date_new_any_year, {"overflow": 1}, None),
        ("from_epoch_nanos", from_epoch_nanos, {}, None),
        ("max_rounding_increment", max_rounding_increment, {}, None),
        ("add_date_any_duration[overflow=0]", add_date_any_duration, {"overflow": 0}, None),
        ("add_date_any_duration[overflow=1]", add_date_any_duration, {"overflow": 1}, None),
    ]
