"""C02 - every value produced is in range; out-of-range results are RangeErrors (Engine M: the limit predicates and the
constructors that apply them, exact at the boundaries, for all inputs)."""
from mirsmt.terms import *
from mirsmt import symex
from . import refs as R
from .c01 import cyc_year
from .c07 import TIME_FIELDS
from .c05 import datetime_round

RANGE_KIND = 2   # ErrorKind::Range
DT_MAX = R.NS_MAX + R.NS_DAY     # |epoch ns| of a date-time must be strictly below this


def kind_of(res):
    """ErrorKind discriminant of an Err payload"""
    e = res.v[1][0]
    return e.f[0].d


def datetime_limits(io, ylo, yhi):
    """ISODateTimeWithinLimits is exact: true iff the UTC epoch ns lies strictly inside (min - 1 day, max + 1 day)"""
    y = cyc_year(io, ylo, yhi)
    m = io.int("m", "u8", 1, 12)
    d = io.int("day", "u8", 1, 31)
    io.assume(le(d.t, R.dim(y.t, m.t)))
    t = [io.int(n, ty, 0, hi) for (n, ty, hi) in TIME_FIELDS]
    dt = symex.Agg([symex.Agg([y, m, d]), symex.Agg(t)])
    r = io.call(("IsoDateTime", None, "is_within_limits"), [io.ref(dt)],
                native=("iso_date_time_within_limits", "bool", [y, m, d] + t))
    ns = add(mul(R.epoch_days(y.t, m.t, d.t), R.NS_DAY), R.time_ns(*[v.t for v in t]))
    want = and_(lt(-DT_MAX, ns), lt(ns, DT_MAX))
    io.witness("C02.dt_limits.reach")
    io.witness("C02.dt_limits.last_representable", eq(ns, DT_MAX - 1))
    io.witness("C02.dt_limits.first_unrepresentable", eq(ns, DT_MAX))
    io.prove("C02.dt_limits.exact", (r.t == want) if is_c(r.t) and is_c(want) else and_(implies(r.t, want), implies(want, r.t)))
    io.obligations("C02.dt_limits")


def date_constructor(io, ylo, yhi, overflow):
    """IsoDate::new_with_overflow (PlainDate::new / try_new): Ok => the regulated date, valid and within limits;
    Err (RangeError) exactly when Temporal says so"""
    y = cyc_year(io, ylo, yhi)
    m = io.int("m", "u8", 0, 255)
    d = io.int("day", "u8", 0, 255)
    ov = symex.Enum(overflow, {overflow: []}, "ArithmeticOverflow")
    r = io.call(("IsoDate", None, "new_with_overflow"), [y, m, d, ov],
                native=("iso_date_new_with_overflow", ("result", ("agg", ["i32", "u8", "u8"])), [y, m, d, symex.Int(overflow, "u8")]))
    io.witness("C02.date_new.reach")
    if overflow == 0:   # constrain
        cm = ite(lt(m.t, 1), 1, ite(gt(m.t, 12), 12, m.t))
        dm = R.dim(y.t, cm)
        cd = ite(lt(d.t, 1), 1, ite(gt(d.t, dm), dm, d.t))
        regulated_ok = True
    else:
        cm, cd = m.t, d.t
        regulated_ok = R.valid_date(y.t, m.t, d.t)
    # date limits are tested at noon of that day
    ns_noon = add(mul(R.epoch_days(y.t, cm, cd), R.NS_DAY), 12 * 3600 * 10**9)
    in_limits = and_(lt(-DT_MAX, ns_noon), lt(ns_noon, DT_MAX))
    want_ok = and_(regulated_ok, in_limits)
    is_ok = eq(r.d, 0)
    io.witness("C02.date_new.ok_reachable", is_ok)
    io.witness("C02.date_new.err_reachable", not_(is_ok))
    io.prove("C02.date_new.ok_iff_valid_and_in_limits",
             (is_ok == want_ok) if is_c(is_ok) and is_c(want_ok) else and_(implies(is_ok, want_ok), implies(want_ok, is_ok)))
    if 0 in r.v:
        Y, M, D = (f.t for f in r.v[0][0].f)
        io.prove("C02.date_new.value_is_regulated_input", and_(eq(Y, y.t), eq(M, cm), eq(D, cd)), hyp=is_ok)
    if 1 in r.v:
        io.prove("C02.date_new.error_is_range_error", eq(kind_of(r), RANGE_KIND), hyp=not_(is_ok))
    io.obligations("C02.date_new")


def year_month_limits(io):
    y = io.int("y", "i32", -(1 << 31), (1 << 31) - 1)
    m = io.int("m", "u8", 1, 12)
    r = io.call("iso::year_month_within_limits", [y, m], native=("year_month_within_limits", "bool"))
    ym = add(mul(y.t, 12), sub(m.t, 1))
    want = and_(le(-271821 * 12 + 3, ym), le(ym, 275760 * 12 + 8))
    io.witness("C02.ym_limits.reach")
    io.prove("C02.ym_limits.exact", and_(implies(r.t, want), implies(want, r.t)) if not (is_c(r.t) and is_c(want)) else r.t == want)
    io.obligations("C02.ym_limits")


def epoch_ns_limits(io):
    """EpochNanoseconds::try_from(i128) / Instant::from_epoch_milliseconds: Ok iff |ns| <= 8.64e21, value unchanged"""
    ns = io.int("ns", "i128", -(1 << 127), (1 << 127) - 1)
    r = io.call(("EpochNanoseconds", "TryFrom<i128>", "try_from"), [ns], native=("epoch_ns_try_from", ("result", "i128")))
    ok = eq(r.d, 0)
    want = and_(le(-R.NS_MAX, ns.t), le(ns.t, R.NS_MAX))
    io.witness("C02.epoch_ns.reach")
    io.prove("C02.epoch_ns.ok_iff_in_range", and_(implies(ok, want), implies(want, ok)) if not (is_c(ok) and is_c(want)) else ok == want)
    if 0 in r.v:
        p = r.v[0][0]
        val = p.f[0].t if isinstance(p, symex.Agg) else p.t
        io.prove("C02.epoch_ns.value_unchanged", eq(val, ns.t), hyp=ok)
    if 1 in r.v:
        io.prove("C02.epoch_ns.error_is_range_error", eq(kind_of(r), RANGE_KIND), hyp=not_(ok))
    ms = io.int("ms", "i64", -(1 << 63), (1 << 63) - 1)
    r2 = io.call(("Instant", None, "from_epoch_milliseconds"), [ms], native=("instant_from_epoch_ms", ("result", "i128")))
    ok2 = eq(r2.d, 0)
    want2 = and_(le(-R.NS_MAX, mul(ms.t, 10**6)), le(mul(ms.t, 10**6), R.NS_MAX))
    io.prove("C02.epoch_ms.ok_iff_in_range", and_(implies(ok2, want2), implies(want2, ok2)) if not (is_c(ok2) and is_c(want2)) else ok2 == want2)
    if 0 in r2.v:
        p = r2.v[0][0]
        while isinstance(p, symex.Agg):
            p = p.f[0]
        io.prove("C02.epoch_ms.value", eq(p.t, mul(ms.t, 10**6)), hyp=ok2)
    io.obligations("C02.epoch_ns")


def jobs(tier, seed):
    out = []
    # rounding a date-time across a range boundary must fail with a RangeError (C05's RoundISODateTime job, which
    # decides 'Ok iff the rounded value is within the limits' for every representable receiver)
    for (u, i) in ((6, 1), (7, 1), (5, 30), (1, 500)):
        out.append(("datetime_round[unit=%d,inc=%d]" % (u, i), datetime_round, {"unit": u, "inc": i}, {"generics": {"T": "i128"}}))
    # the constructors accept any i32 year: probe well beyond the representable range, in year windows the
    # day-count kernel was designed for (|year| < 1.4e6), and the whole i32 range separately (see C03)
    out.append(("datetime_limits[y-300000..300000]", datetime_limits, {"ylo": -300000, "yhi": 300000}, None))
    for ov in (0, 1):
        out.append(("date_constructor[y-300000..300000,overflow=%d]" % ov, date_constructor, {"ylo": -300000, "yhi": 300000, "overflow": ov}, None))
    out.append(("year_month_limits", year_month_limits, {}, None))
    out.append(("epoch_ns_limits", epoch_ns_limits, {}, None))
    return out


def _yv(y):
    return {"yc": y // 400, "yr": y % 400}


VALIDATION = [
    (date_constructor, {"ylo": -300000, "yhi": 300000, "overflow": 1},
     [dict(_yv(y), m=m, day=d) for (y, m, d) in ((-271821, 4, 19), (-271821, 4, 18), (275760, 9, 13), (275760, 9, 14), (2021, 2, 29), (2020, 2, 29), (2000, 13, 1))]),
    (date_constructor, {"ylo": -300000, "yhi": 300000, "overflow": 0},
     [dict(_yv(y), m=m, day=d) for (y, m, d) in ((2021, 2, 31), (2000, 0, 0), (2000, 200, 200), (275760, 9, 30), (-271821, 4, 1))]),
    (year_month_limits, {}, [{"y": y, "m": m} for (y, m) in ((-271821, 3), (-271821, 4), (275760, 9), (275760, 10), (0, 1))]),
]
