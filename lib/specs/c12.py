"""C12 (record level, Engine M) - per-type post-parse rules: the value a type's parser produces from a parse record is the
one the grammar assigns to the string, everything else is a RangeError, never a panic or a silently altered value.

The `ixdtf` crate's character-level grammar (text -> IxdtfParseRecord) is an external crate and is not executed: the
private `parsers::parse_ixdtf` is replaced by the environment, which returns an *arbitrary* record the grammar can
produce (contract read from ixdtf 0.4 `parsers/datetime.rs`, `parsers/time.rs`: year -999999..=999999, a valid
proleptic-Gregorian month/day, hour 0..=23, minute 0..=59, second 0..=60, a fraction of 1.. digits, offset hour 0..=23,
minute/second 0..=59).  Everything after it - parse_date_time / parse_instant / parse_time, IsoTime::from_time_record,
the FromStr bodies - is the real MIR.  Native replay renders the record as text and calls the real `from_str`."""
import re
from mirsmt.terms import *
from mirsmt.terms import T
from mirsmt import symex
from . import refs as R
from .c01 import cyc_year

NS = 10**9


def fraction(io, p):
    has = io.bool(p + "has_fraction")
    d = io.int(p + "fraction_digits", "u8", 1, 12)
    ns = io.int(p + "fraction_ns", "u32", 0, 999_999_999)
    # the first min(d, 9) written digits; with d <= 9 the remaining digits of the 9-digit value are zero
    io.assume(or_(gt(d.t, 9), *[and_(eq(d.t, k), eq(emod(ns.t, 10 ** (9 - k)), 0)) for k in range(1, 10)]))
    return has, d, ns


def record_inputs(io, year_lo=-999_999, year_hi=999_999):
    y = cyc_year(io, year_lo, year_hi)
    io.assume(and_(le(year_lo, y.t), le(y.t, year_hi)))
    m = io.int("m", "u8", 1, 12)
    d = io.int("day", "u8", 1, 31)
    io.assume(le(d.t, R.dim(y.t, m.t)))
    has_time = io.bool("has_time")
    h = io.int("hour", "u8", 0, 23)
    mi = io.int("minute", "u8", 0, 59)
    s = io.int("second", "u8", 0, 60)
    tf = fraction(io, "time_")
    kind = io.int("offset_kind", "u8", 0, 2)       # 0 none, 1 +-hh:mm[:ss[.f]], 2 Z
    sgn = io.int("offset_sign", "i8", -1, 1)
    io.assume(ne(sgn.t, 0))
    oh = io.int("offset_hour", "u8", 0, 23)
    om = io.int("offset_minute", "u8", 0, 59)
    os_ = io.int("offset_second", "u8", 0, 59)
    of = fraction(io, "offset_")
    # grammar: an offset or Z only after a time; a sub-minute offset fraction only after offset seconds (always rendered)
    io.assume(implies(not_(has_time.t), eq(kind.t, 0)))
    return dict(y=y, m=m, d=d, has_time=has_time, h=h, mi=mi, s=s, tf=tf, kind=kind, sgn=sgn, oh=oh, om=om, os=os_, of=of)


def native_args(r):
    return [r["y"], r["m"], r["d"], r["has_time"], r["h"], r["mi"], r["s"], r["tf"][0], r["tf"][1], r["tf"][2],
            r["kind"], r["sgn"], r["oh"], r["om"], r["os"], r["of"][0], r["of"][1], r["of"][2]]


def _frac_value(f):
    has, d, ns = f
    return symex.Enum(ite(has.t, 1, 0), {0: [], 1: [symex.Agg([d, ns])]}, "Option")


def install_parser(io, r, short=None):
    """environment: parsers::parse_ixdtf returns Ok(the record) (strings without annotations).
    `short` = (form, month, day): form 1 = the string is of the short month-day form `[--]MM-DD` (only the MonthDay goal
    parses it: record year 0, month 1..=12, day 1..=31 unvalidated), form 2 = a date / date-time string (only the
    DateTime goal parses it: record `r`), form 0 = neither."""
    ex = io.s.ex
    ex.src.enums["UtcOffsetRecordOrZ"] = [("Offset", 0, 1), ("Z", 1, 0)]
    date = symex.Enum(1, {0: [], 1: [symex.Agg([r["y"], r["m"], r["d"]])]}, "Option")
    time = symex.Enum(ite(r["has_time"].t, 1, 0), {0: [], 1: [symex.Agg([r["h"], r["mi"], r["s"], _frac_value(r["tf"])])]}, "Option")
    sign = symex.Enum(r["sgn"].t, {-1: [], 1: []}, "Sign")
    orec = symex.Agg([sign, r["oh"], r["om"], r["os"], _frac_value(r["of"])])
    off_or_z = symex.Enum(ite(eq(r["kind"].t, 2), 1, 0), {0: [orec], 1: []}, "UtcOffsetRecordOrZ")
    offset = symex.Enum(ite(eq(r["kind"].t, 0), 0, 1), {0: [], 1: [off_or_z]}, "Option")
    none = symex.Enum(0, {0: [], 1: [symex.Opaque("annotation")]}, "Option")
    record = symex.Agg([date, time, offset, none, none])

    err = symex.Agg([symex.Enum(2, {2: []}, "ErrorKind"), symex.Opaque("msg")])

    def parse_ixdtf(exx, st, callee, args):
        if short is None:
            return symex.Enum(0, {0: [record], 1: [err]}, "Result")
        form, sm, sd = short
        variant = exx.deref(st, args[1])
        if not is_c(variant.d):
            raise symex.NotEncodable("symbolic ParseVariant")
        if variant.d == 1:          # ParseVariant::MonthDay
            sdate = symex.Enum(1, {0: [], 1: [symex.Agg([symex.Int(0, "i32"), sm, sd])]}, "Option")
            # absent time / offset: well-typed (never read) payloads so that the record merges with the date-time record
            z8 = lambda: symex.Int(0, "u8")
            nofrac = symex.Enum(0, {0: [], 1: [symex.Agg([symex.Int(1, "u8"), symex.Int(0, "u32")])]}, "Option")
            t0 = symex.Enum(0, {0: [], 1: [symex.Agg([z8(), z8(), z8(), nofrac])]}, "Option")
            o0 = symex.Enum(0, {0: [], 1: [symex.Enum(1, {0: [orec], 1: []}, "UtcOffsetRecordOrZ")]}, "Option")
            return symex.Enum(ite(eq(form.t, 1), 0, 1), {0: [symex.Agg([sdate, t0, o0, none, none])], 1: [err]}, "Result")
        if variant.d == 2:          # ParseVariant::DateTime
            return symex.Enum(ite(eq(form.t, 2), 0, 1), {0: [record], 1: [err]}, "Result")
        return symex.Enum(1, {0: [record], 1: [err]}, "Result")

    def to_ns(exx, st, callee, args):
        f = exx.deref(st, args[0])
        d, ns = f.f
        return symex.Enum(ite(le(d.t, 9), 1, 0), {0: [], 1: [symex.Int(ns.t, "u32")]}, "Option")

    def opt_offset_eq(exx, st, callee, args):
        a, b = exx.deref(st, args[0]), exx.deref(st, args[1])
        return symex.Bool(struct_eq(exx, st, a, b))

    ex.externals.append((re.compile(r"^(parsers::)?parse_ixdtf$"), parse_ixdtf))
    ex.externals.append((re.compile(r"Fraction::to_nanoseconds"), to_ns))
    ex.externals.append((re.compile(r"^<Option<UtcOffsetRecordOrZ> as PartialEq>::eq$"), opt_offset_eq))


def install_date_contracts(io):
    """assume-guarantee step for the two date kernels on the parser's year range (beyond Temporal's own range, where C01
    decides them): IsoDate::balance(y, m, d) returns *the valid date of day* ref(y, m, 1) + d - 1, and to_epoch_days of
    that date is that day.  Both contracts are discharged for years +-1 000 001 by the lemma jobs below
    (C12.lemma.balance / .ymd / .days); here the kernels are replaced by fresh values constrained by the contract."""
    ex = io.s.ex
    known = {}

    def balance(exx, st, callee, args):
        y, m, d = (exx.deref(st, a) for a in args)
        n = len(known)
        Y = io.s.int("bal%d_year" % n, "i32", -1_000_001, 1_000_001)
        M = io.s.int("bal%d_month" % n, "u8", 1, 12)
        D = io.s.int("bal%d_day" % n, "u8", 1, 31)
        del io.s.inputs["bal%d_year" % n], io.s.inputs["bal%d_month" % n], io.s.inputs["bal%d_day" % n]
        in_month = and_(le(1, m.t), le(m.t, 12), le(1, d.t), le(d.t, R.dim(y.t, m.t)))
        io.s.assume(implies(in_month, and_(eq(Y.t, y.t), eq(M.t, m.t), eq(D.t, d.t))))
        ex.oblige("fpexact", "date contract used outside its proven range (month 1..=12, |day| <= 40)", st.pc,
                  not_(and_(le(1, m.t), le(m.t, 12), le(-40, d.t), le(d.t, 40))))
        known[(Y.t.s, M.t.s, D.t.s)] = add(R.epoch_days(y.t, m.t, 1), sub(d.t, 1))
        return symex.Agg([Y, M, D])

    def to_epoch_days(exx, st, callee, args):
        date = exx.deref(st, args[0])
        key = tuple(f.t.s if isinstance(f.t, T) else None for f in date.f)
        if key not in known:
            raise symex.NotEncodable("to_epoch_days of a date that is not a recorded balance result")
        return symex.Int(known[key], "i32")

    ex.externals.append((re.compile(r"^(iso::)?IsoDate::balance$"), balance))
    ex.externals.append((re.compile(r"^(iso::)?IsoDate::to_epoch_days$"), to_epoch_days))


def lemma_balance(io):
    from . import c01
    c01.balance(io, -1_000_001, 1_000_001, -40, 40, P="C12.lemma", tlo=-400_000_000, thi=400_000_000)


def lemma_ymd(io):
    from . import c01
    c01.ymd_of_day(io, -366_000_000, 366_000_000, P="C12.lemma")


def lemma_days(io):
    from . import c01
    c01.day_of_ymd(io, -1_000_001, 1_000_001, P="C12.lemma")


def struct_eq(ex, st, a, b):
    """derived PartialEq of the external record types, structurally"""
    a, b = ex.deref(st, a), ex.deref(st, b)
    for x, y in ((a, b), (b, a)):
        if isinstance(x, symex.Opaque) and x.tag.startswith("unit:") and isinstance(y, symex.Enum):
            return eq(y.d, ex._variant_discr(y, x.tag[5:]))     # a field-less variant written as a constant
    if isinstance(a, symex.Int) and isinstance(b, symex.Int):
        return eq(a.t, b.t)
    if isinstance(a, symex.Bool) and isinstance(b, symex.Bool):
        return eq(a.t, b.t)
    if isinstance(a, symex.Agg) and isinstance(b, symex.Agg) and len(a.f) == len(b.f):
        return and_(*[struct_eq(ex, st, x, y) for x, y in zip(a.f, b.f)])
    if isinstance(a, symex.Enum) and isinstance(b, symex.Enum):
        same = eq(a.d, b.d)
        parts = []
        for k in set(a.v) & set(b.v):
            if a.v[k] and b.v[k]:
                parts.append(implies(eq(a.d, k), and_(*[struct_eq(ex, st, x, y) for x, y in zip(a.v[k], b.v[k])])))
        return and_(same, *parts)
    raise symex.NotEncodable("struct_eq on %r / %r" % (a, b))


def _offset_ns(r):
    has, d, ns = r["of"]
    mag = add(mul(3600 * NS, r["oh"].t), add(mul(60 * NS, r["om"].t), add(mul(NS, r["os"].t), ite(has.t, ns.t, 0))))
    return ite(eq(r["sgn"].t, 1), mag, sub(0, mag))


def _too_many_digits(f):
    has, d, ns = f
    return and_(has.t, gt(d.t, 9))


def _time_ns(r):
    has, d, ns = r["tf"]
    sec = ite(eq(r["s"].t, 60), 59, r["s"].t)          # a leap second reads as :59
    return add(mul(add(mul(add(mul(r["h"].t, 60), r["mi"].t), 60), sec), NS), ite(has.t, ns.t, 0))


def instant(io):
    """Instant::from_str: a date, a time and an offset-or-Z are required; the instant is the exact UTC reading minus
    the written offset; RangeError outside +-8.64e21 ns and for more than nine fractional digits"""
    r = record_inputs(io)
    if io.kind != "sym":
        res = io.call(None, [], native=("record_instant", ("result", "i128"), native_args(r)))
    else:
        install_parser(io, r)
        install_date_contracts(io)
        res = io.call(("Instant", "FromStr", "from_str"), [io.ref(symex.Opaque("str"))], native=None)
    want_ns = sub(add(mul(R.NS_DAY, R.epoch_days(r["y"].t, r["m"].t, r["d"].t)), _time_ns(r)),
                  ite(eq(r["kind"].t, 1), _offset_ns(r), 0))
    digits_ok = and_(not_(_too_many_digits(r["tf"])), or_(ne(r["kind"].t, 1), not_(_too_many_digits(r["of"]))))
    want_ok = and_(r["has_time"].t, ne(r["kind"].t, 0), digits_ok, le(-R.NS_MAX, want_ns), le(want_ns, R.NS_MAX))
    got_ok = eq(res.d, 0)
    L = "C12.record.instant"
    io.witness(L + ".reach")
    io.witness(L + ".accepted", got_ok)
    io.witness(L + ".rejected_out_of_range", and_(not_(got_ok), r["has_time"].t, ne(r["kind"].t, 0), digits_ok))
    io.prove(L + ".rejects_more_than_nine_fraction_digits", not_(got_ok), hyp=and_(r["has_time"].t, _too_many_digits(r["tf"])))
    io.prove(L + ".rejects_more_than_nine_offset_fraction_digits", not_(got_ok),
             hyp=and_(r["has_time"].t, eq(r["kind"].t, 1), _too_many_digits(r["of"])))
    io.prove(L + ".accepts_exactly_the_grammar_in_range", and_(implies(got_ok, want_ok), implies(want_ok, got_ok)), hyp=digits_ok)
    if 0 in res.v:
        p = res.v[0][0]
        while isinstance(p, symex.Agg):
            p = p.f[0]
        io.prove(L + ".value_is_the_written_instant", eq(p.t, want_ns), hyp=and_(got_ok, want_ok))
    if 1 in res.v:
        io.prove(L + ".error_is_range_error", eq(_err_kind(res), 2), hyp=not_(got_ok))
    io.obligations(L)


def _err_kind(res):
    e = res.v[1][0]
    while isinstance(e, symex.Agg):
        e = e.f[0]
    if isinstance(e, symex.Opaque):
        return 2 if e.tag == "err" else None       # `map_err(|e| TemporalError::range()...)` (models.py keeps no payload for map_err)
    return e.d if isinstance(e, symex.Enum) else e.t


def plain_time(io):
    """PlainTime::from_str: no UTC designator; fields as written, :60 reads as :59, at most nine fractional digits"""
    r = record_inputs(io, 1972, 1972)
    io.assume(r["has_time"].t)
    if io.kind != "sym":
        res = io.call(None, [], native=("record_plain_time", ("result", ("agg", ["u8", "u8", "u8", "u16", "u16", "u16"])), native_args(r)))
    else:
        install_parser(io, r)
        res = io.call(("PlainTime", "FromStr", "from_str"), [io.ref(symex.Opaque("str"))], native=None)
    want_ok = and_(ne(r["kind"].t, 2), not_(_too_many_digits(r["tf"])))
    got_ok = eq(res.d, 0)
    L = "C12.record.plain_time"
    io.witness(L + ".reach")
    io.witness(L + ".accepted", got_ok)
    io.prove(L + ".rejects_utc_designator", not_(got_ok), hyp=eq(r["kind"].t, 2))
    io.prove(L + ".rejects_more_than_nine_fraction_digits", not_(got_ok), hyp=_too_many_digits(r["tf"]))
    io.prove(L + ".accepts_exactly_the_grammar", and_(implies(got_ok, want_ok), implies(want_ok, got_ok)))
    if 0 in res.v:
        p = res.v[0][0]
        while isinstance(p, symex.Agg) and len(p.f) == 1:
            p = p.f[0]
        io.prove(L + ".value_is_the_written_time", eq(R.time_ns(*[f.t for f in p.f]), _time_ns(r)), hyp=got_ok)
        io.prove(L + ".fields_in_range", and_(le(p.f[0].t, 23), le(p.f[1].t, 59), le(p.f[2].t, 59), le(p.f[3].t, 999), le(p.f[4].t, 999), le(p.f[5].t, 999)), hyp=got_ok)
    if 1 in res.v:
        io.prove(L + ".error_is_range_error", eq(_err_kind(res), 2), hyp=not_(got_ok))
    io.obligations(L)


def plain_date_time(io):
    """PlainDateTime::from_str (ISO calendar, no annotation): no UTC designator; the written fields, midnight without a time;
    RangeError outside the representable date-time range"""
    r = record_inputs(io)
    if io.kind != "sym":
        res = io.call(None, [], native=("record_plain_date_time", ("result", ("agg", [("agg", ["i32", "u8", "u8"]), ("agg", ["u8", "u8", "u8", "u16", "u16", "u16"])])), native_args(r)))
    else:
        install_parser(io, r)
        res = io.call(("PlainDateTime", "FromStr", "from_str"), [io.ref(symex.Opaque("str"))], native=None)
    tod = ite(r["has_time"].t, _time_ns(r), 0)
    at = add(mul(R.NS_DAY, R.epoch_days(r["y"].t, r["m"].t, r["d"].t)), tod)
    in_limits = and_(lt(-(R.NS_MAX + R.NS_DAY), at), lt(at, R.NS_MAX + R.NS_DAY))
    digits_ok = not_(and_(r["has_time"].t, _too_many_digits(r["tf"])))
    want_ok = and_(ne(r["kind"].t, 2), digits_ok, in_limits)
    got_ok = eq(res.d, 0)
    L = "C12.record.plain_date_time"
    io.witness(L + ".reach")
    io.witness(L + ".accepted", got_ok)
    io.witness(L + ".rejected_out_of_range", and_(not_(got_ok), ne(r["kind"].t, 2), digits_ok))
    io.prove(L + ".rejects_utc_designator", not_(got_ok), hyp=eq(r["kind"].t, 2))
    io.prove(L + ".rejects_more_than_nine_fraction_digits", not_(got_ok), hyp=not_(digits_ok))
    io.prove(L + ".accepts_exactly_the_grammar_in_range", and_(implies(got_ok, want_ok), implies(want_ok, got_ok)))
    if 0 in res.v:
        p = res.v[0][0]
        iso = p.f[0]
        date, tm = iso.f
        io.prove(L + ".date_is_the_written_date", and_(eq(date.f[0].t, r["y"].t), eq(date.f[1].t, r["m"].t), eq(date.f[2].t, r["d"].t)), hyp=got_ok)
        io.prove(L + ".time_is_the_written_time", eq(R.time_ns(*[f.t for f in tm.f]), tod), hyp=got_ok)
    if 1 in res.v:
        io.prove(L + ".error_is_range_error", eq(_err_kind(res), 2), hyp=not_(got_ok))
    io.obligations(L)


def plain_date(io):
    """PlainDate::from_str (ISO calendar, no annotation)"""
    r = record_inputs(io)
    if io.kind != "sym":
        res = io.call(None, [], native=("record_plain_date", ("result", ("agg", ["i32", "u8", "u8"])), native_args(r)))
    else:
        install_parser(io, r)
        res = io.call(("PlainDate", "FromStr", "from_str"), [io.ref(symex.Opaque("str"))], native=None)
    noon = add(mul(R.NS_DAY, R.epoch_days(r["y"].t, r["m"].t, r["d"].t)), 12 * 3600 * NS)
    in_limits = and_(lt(-(R.NS_MAX + R.NS_DAY), noon), lt(noon, R.NS_MAX + R.NS_DAY))
    digits_ok = not_(and_(r["has_time"].t, _too_many_digits(r["tf"])))
    want_ok = and_(ne(r["kind"].t, 2), digits_ok, in_limits)
    got_ok = eq(res.d, 0)
    L = "C12.record.plain_date"
    io.witness(L + ".reach")
    io.witness(L + ".accepted", got_ok)
    io.prove(L + ".rejects_utc_designator", not_(got_ok), hyp=eq(r["kind"].t, 2))
    io.prove(L + ".rejects_more_than_nine_fraction_digits", not_(got_ok), hyp=not_(digits_ok))
    io.prove(L + ".accepts_exactly_the_grammar_in_range", and_(implies(got_ok, want_ok), implies(want_ok, got_ok)), hyp=digits_ok)
    if 0 in res.v:
        p = res.v[0][0]
        date = p.f[0]
        io.prove(L + ".date_is_the_written_date", and_(eq(date.f[0].t, r["y"].t), eq(date.f[1].t, r["m"].t), eq(date.f[2].t, r["d"].t)), hyp=got_ok)
    if 1 in res.v:
        io.prove(L + ".error_is_range_error", eq(_err_kind(res), 2), hyp=not_(got_ok))
    io.obligations(L)


def plain_month_day(io):
    """PlainMonthDay::from_str (ISO calendar, no annotation): the short form `[--]MM-DD` or any date / date-time string
    without a UTC designator; reference year 1972"""
    r = record_inputs(io)
    form = io.int("form", "u8", 0, 2)
    sm = io.int("short_month", "u8", 1, 12)
    sd = io.int("short_day", "u8", 1, 31)
    if io.kind != "sym":
        res = io.call(None, [], native=("record_plain_month_day", ("result", ("agg", ["i32", "u8", "u8"])), [form, sm, sd] + native_args(r)))
    else:
        install_parser(io, r, short=(form, sm, sd))
        res = io.call(("PlainMonthDay", "FromStr", "from_str"), [io.ref(symex.Opaque("str"))], native=None)
    digits_ok = not_(and_(r["has_time"].t, _too_many_digits(r["tf"])))
    want_ok = ite(eq(form.t, 1), le(sd.t, R.dim(1972, sm.t)), ite(eq(form.t, 2), and_(ne(r["kind"].t, 2), digits_ok), False))
    wm = ite(eq(form.t, 1), sm.t, r["m"].t)
    wd = ite(eq(form.t, 1), sd.t, r["d"].t)
    got_ok = eq(res.d, 0)
    L = "C12.record.plain_month_day"
    io.witness(L + ".reach")
    io.witness(L + ".accepted_short_form", and_(got_ok, eq(form.t, 1)))
    io.prove(L + ".rejects_what_no_goal_parses", not_(got_ok), hyp=eq(form.t, 0))
    io.prove(L + ".rejects_utc_designator", not_(got_ok), hyp=and_(eq(form.t, 2), eq(r["kind"].t, 2)))
    io.prove(L + ".short_form_accepted_iff_day_exists", and_(implies(got_ok, want_ok), implies(want_ok, got_ok)), hyp=eq(form.t, 1))
    io.prove(L + ".accepts_date_and_date_time_strings", and_(implies(got_ok, want_ok), implies(want_ok, got_ok)), hyp=and_(eq(form.t, 2), digits_ok))
    io.prove(L + ".rejects_more_than_nine_fraction_digits", not_(got_ok), hyp=and_(eq(form.t, 2), not_(digits_ok)))
    if 0 in res.v:
        date = res.v[0][0].f[0]
        io.prove(L + ".value_is_written_month_day_in_1972", and_(eq(date.f[0].t, 1972), eq(date.f[1].t, wm), eq(date.f[2].t, wd)), hyp=and_(got_ok, want_ok))
    if 1 in res.v:
        io.prove(L + ".error_is_range_error", eq(_err_kind(res), 2), hyp=not_(got_ok))
    io.obligations(L)


def jobs(tier, seed):
    return [
        ("lemma_balance[years +-1000001]", lemma_balance, {}, {"timeout": 600}),
        ("lemma_ymd[days +-3.66e8]", lemma_ymd, {}, {"timeout": 600}),
        ("lemma_days[years +-1000001]", lemma_days, {}, {"timeout": 600}),
        ("record_instant", instant, {}, {"timeout": 600}),
        ("record_plain_time", plain_time, {}, {"timeout": 300}),
        ("record_plain_date_time", plain_date_time, {}, {"timeout": 600}),
        ("record_plain_date", plain_date, {}, {"timeout": 600}),
        ("record_plain_month_day", plain_month_day, {}, {"timeout": 600}),
    ]
