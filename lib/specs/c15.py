"""C15 (Engine M part) - provider entry point: FsTzdbProvider::get_named_tz_offset_nanoseconds asks the TZif table for
the *floor* second of the instant, so the offset in force is right for sub-second instants before 1970 as well.

Environment: `FsTzdbProvider::get` (file system + cache) returns the zone's table; `Tzif::get` answers by its contract
"offset of the period containing the second" (decided on symbolic tables by the Kani harness c15_tzif_get) for a zone
with one transition chosen by the solver.  Native replay builds that table and drives the real provider through the
`verif_with_cached` hook."""
import re
from mirsmt.terms import *
from mirsmt import symex

NS = 10**9


def provider_offset(io):
    t0 = io.int("transition", "i64", -4_000_000_000, 4_000_000_000)
    off0 = io.int("offset_before", "i64", -93_600, 93_600)
    off1 = io.int("offset_after", "i64", -93_600, 93_600)
    e = io.int("instant_ns", "i128", -8_000_000_000 * NS, 8_000_000_000 * NS)
    if io.kind != "sym":
        r = io.call(None, [], native=("fs_provider_offset", ("result", "i64"), [t0, off0, off1, e]))
    else:
        ex = io.s.ex
        asked = []

        def get_zone(exx, st, callee, args):
            return symex.Enum(0, {0: [symex.Opaque("tzif")], 1: [symex.Opaque("err")]}, "Result")

        def tzif_get(exx, st, callee, args):
            sec = exx.deref(st, args[1])
            while isinstance(sec, symex.Agg):
                sec = sec.f[0]
            asked.append(sec.t)
            after = ge(sec.t, t0.t)
            te = symex.Enum(ite(after, 1, 0), {0: [], 1: [symex.Int(t0.t, "i64")]}, "Option")
            return symex.Enum(0, {0: [symex.Agg([te, symex.Int(ite(after, off1.t, off0.t), "i64")])]}, "Result")

        ex.externals.append((re.compile(r"^(tzdb::)?FsTzdbProvider::get$"), get_zone))
        ex.externals.append((re.compile(r"^(tzdb::)?Tzif::get$"), tzif_get))
        r = io.call(("FsTzdbProvider", "TimeZoneProvider", "get_named_tz_offset_nanoseconds"),
                    [io.ref(symex.Opaque("provider")), io.ref(symex.Opaque("str")), e], native=None)
    want = ite(ge(ediv(e.t, NS), t0.t), off1.t, off0.t)
    io.witness("C15.provider_offset.reach")
    io.witness("C15.provider_offset.sub_second_before_a_negative_transition",
               and_(lt(t0.t, 0), eq(ediv(e.t, NS), sub(t0.t, 1)), ne(emod(e.t, NS), 0), ne(off0.t, off1.t)))
    io.prove("C15.provider_offset.answers", eq(r.d, 0))
    if 0 in r.v:
        o = r.v[0][0]
        got = o.f[1].t if isinstance(o, symex.Agg) else o.t
        io.prove("C15.provider_offset.offset_in_force_at_the_instant", eq(got, want), hyp=eq(r.d, 0))
    io.obligations("C15.provider_offset")


def footer_offset(io, ylo, yhi):
    """POSIX footer (beyond the transition table): `EST5EDT,M3.2.0,M11.1.0` - daylight time from the second Sunday of
    March 02:00 standard time to the first Sunday of November 02:00 daylight time, for every second of the years given"""
    from . import refs as R
    y = io.int("year", "i32", ylo, yhi)
    sod = io.int("second_of_year", "i64", 0, 366 * 86400 - 1)
    jan1 = R.epoch_days(y.t, 1, 1)
    q = symex.Int(add(mul(86400, jan1), sod.t), "i64")
    io.assume(lt(q.t, mul(86400, R.epoch_days(add(y.t, 1), 1, 1))))
    STD, DST = 18000, 14400            # POSIX sign: seconds to add to local time to reach UTC
    if io.kind != "sym":
        r = io.call(None, [], native=("posix_footer_offset", ("result", "i64"), [q]))
    else:
        ex = io.s.ex
        ex.src.enums["TransitionDay"] = [("NoLeap", 0, 1), ("WithLeap", 1, 1), ("Mwd", 2, 3)]     # tzif::data::posix (external crate)
        sec = lambda v: symex.Agg([symex.Int(v, "i64")])
        mwd = lambda m, w, d: symex.Enum(2, {2: [symex.Int(m, "u16"), symex.Int(w, "u16"), symex.Int(d, "u16")]}, "TransitionDay")
        info = lambda off: symex.Agg([symex.Opaque("name"), sec(off)])
        dst = symex.Agg([info(DST), symex.Agg([mwd(3, 2, 0), sec(7200)]), symex.Agg([mwd(11, 1, 0), sec(7200)])])
        posix = symex.Agg([info(STD), symex.Enum(1, {0: [], 1: [dst]}, "Option")])
        r = io.call_named("resolve_posix_tz_string_for_epoch_seconds", [io.ref(posix), q])
    dow = lambda days: emod(add(days, 4), 7)                     # 0 = Sunday; 1970-01-01 was a Thursday
    mar1, nov1 = R.epoch_days(y.t, 3, 1), R.epoch_days(y.t, 11, 1)
    start_day = add(mar1, add(emod(sub(7, dow(mar1)), 7), 7))    # second Sunday of March
    end_day = add(nov1, emod(sub(7, dow(nov1)), 7))              # first Sunday of November
    start = add(mul(86400, start_day), 7200 + STD)
    end = add(mul(86400, end_day), 7200 + DST)
    want = ite(and_(le(start, q.t), lt(q.t, end)), -DST, -STD)
    io.witness("C15.footer.reach")
    io.witness("C15.footer.day_before_the_spring_transition", eq(ediv(q.t, 86400), sub(start_day, 1)))
    io.prove("C15.footer.answers", eq(r.d, 0))
    if 0 in r.v:
        o = r.v[0][0]
        got = o.f[1].t if isinstance(o, symex.Agg) else o.t
        # first the seconds of the transition days themselves, then every second
        near = or_(eq(ediv(q.t, 86400), start_day), eq(ediv(q.t, 86400), end_day))
        io.prove("C15.footer.offset_in_force[on the transition days]", eq(got, want), hyp=and_(eq(r.d, 0), near))
        io.prove("C15.footer.offset_in_force", eq(got, want), hyp=eq(r.d, 0))
    io.obligations("C15.footer")


def jobs(tier, seed):
    return [("provider_offset", provider_offset, {}, None),
            ("footer_offset[EST5EDT, years 2038..=2041]", footer_offset, {"ylo": 2038, "yhi": 2041}, {"timeout": 300})]
