"""Independent reference definitions (proleptic Gregorian calendar, Temporal limits) in the term language.
Written from the textbook rules - not from the implementation's Neri-Schneider formulae."""
from mirsmt.terms import *

YEAR_MIN, YEAR_MAX = -271821, 275760
DAY_MAX = 100_000_000           # |epoch day| of the last representable instant's date
NS_DAY = 86_400_000_000_000
NS_MAX = NS_DAY * DAY_MAX


def leap(y):
    return and_(eq(emod(y, 4), 0), or_(ne(emod(y, 100), 0), eq(emod(y, 400), 0)))


def dim(y, m):
    return ite(eq(m, 2), ite(leap(y), 29, 28),
               ite(or_(eq(m, 4), eq(m, 6), eq(m, 9), eq(m, 11)), 30, 31))


def valid_date(y, m, d):
    return and_(le(1, m), le(m, 12), le(1, d), le(d, dim(y, m)))


CUM = [0, 31, 59, 90, 120, 151, 181, 212, 243, 273, 304, 334]


def cum_days(m):
    """days before month m in a common year (m in 1..=12)"""
    t = CUM[11]
    for k in range(10, -1, -1):
        t = ite(eq(m, k + 1), CUM[k], t)
    return t


def epoch_days(y, m, d):
    """days from 1970-01-01 to the valid proleptic-Gregorian date y-m-d"""
    y1 = sub(y, 1)
    before = add(sub(add(mul(365, y1), ediv(y1, 4)), ediv(y1, 100)), ediv(y1, 400))
    n = add(add(before, cum_days(m)), sub(d, 1))
    n = add(n, ite(and_(leap(y), gt(m, 2)), 1, 0))
    return sub(n, 719162)


def time_ns(h, mi, s, ms, us, ns):
    return add(mul(add(mul(add(mul(add(mul(add(mul(h, 60), mi), 60), s), 1000), ms), 1000), us), 1000), ns)


def chunks(lo, hi, n):
    """split lo..=hi into n contiguous closed intervals"""
    total = hi - lo + 1
    out = []
    for i in range(n):
        a = lo + total * i // n
        b = lo + total * (i + 1) // n - 1
        if a <= b:
            out.append((a, b))
    return out


def round_to_increment(x, inc, mode):
    """RoundNumberToIncrement on exact integers; inc a positive constant; mode = RoundingMode discriminant
    (0 ceil, 1 floor, 2 expand, 3 trunc, 4 halfCeil, 5 halfFloor, 6 halfExpand, 7 halfTrunc, 8 halfEven)"""
    q = ediv(x, inc)
    r = emod(x, inc)
    lo = mul(q, inc)
    hi = add(lo, inc)
    pos = gt(x, 0)
    away = ite(pos, hi, lo)
    toward = ite(pos, lo, hi)
    twice = mul(2, r)
    even = ite(eq(emod(q, 2), 0), lo, hi)
    tie = ite(eq(mode, 4), hi, ite(eq(mode, 5), lo, ite(eq(mode, 6), away, ite(eq(mode, 7), toward, even))))
    half = ite(lt(twice, inc), lo, ite(gt(twice, inc), hi, tie))
    directed = ite(eq(mode, 0), hi, ite(eq(mode, 1), lo, ite(eq(mode, 2), away, toward)))
    return ite(eq(r, 0), x, ite(le(mode, 3), directed, half))
