"""C06 - times are integers mod 24 h and instants integers on the epoch line (Engine M: the integer kernels; duration
fields are exact-integer doubles, |field| <= 2^53 - the saturating-cast region beyond 2^63 belongs to the Kani harnesses)."""
from mirsmt.terms import *
from mirsmt import symex
from . import refs as R
from .c07 import any_time, TIME_FIELDS
from .c05 import fields_valid

CAP = 9_007_199_254_740_991_999_999_999      # MAX_TIME_DURATION: 2^53 s minus 1 ns
UNITS = [3600 * 10**9, 60 * 10**9, 10**9, 10**6, 10**3, 1]


def time_duration(io, lim):
    f = [io.flt(n, -lim, lim) for n in ("dh", "dmin", "ds", "dms", "dus", "dns")]
    total = 0
    for v, u in zip(f, UNITS):
        total = add(total, mul(u, v.t))
    return f, total


def epoch_ms(io):
    ns = io.int("ns", "i128", -R.NS_MAX, R.NS_MAX)
    r = io.call(("Instant", None, "epoch_milliseconds"), [io.ref(symex.Agg([symex.Agg([ns])]))],
                native=("instant_epoch_ms", "i64", [ns]))
    io.witness("C06.epoch_ms.reach")
    io.prove("C06.epoch_ms.is_floor_of_ns_over_1e6", eq(r.t, ediv(ns.t, 10**6)))
    io.witness("C06.epoch_ms.negative_non_multiple", and_(lt(ns.t, 0), ne(emod(ns.t, 10**6), 0)))
    io.obligations("C06.epoch_ms")


def norm_ops(io):
    a = io.int("a", "i128", -R.NS_MAX, R.NS_MAX)
    b = io.int("b", "i128", -R.NS_MAX, R.NS_MAX)
    r = io.call(("NormalizedTimeDuration", None, "from_nanosecond_difference"), [a, b],
                native=("norm_from_nanosecond_difference", ("result", "i128")))
    d = sub(a.t, b.t)
    ok = eq(r.d, 0)
    want = and_(le(-CAP, d), le(d, CAP))
    io.witness("C06.norm.reach")
    io.prove("C06.norm.difference_ok_iff_within_cap", and_(implies(ok, want), implies(want, ok)))
    if 0 in r.v:
        p = r.v[0][0]
        while isinstance(p, symex.Agg):
            p = p.f[0]
        io.prove("C06.norm.difference_exact", eq(p.t, d), hyp=ok)
    n = io.int("n", "i128", -CAP, CAP)
    days = io.int("days", "i64", -(1 << 40), 1 << 40)
    r2 = io.call(("NormalizedTimeDuration", None, "add_days"), [io.ref(symex.Agg([n])), days],
                 native=("norm_add_days", ("result", "i128"), [n, days]))
    s2 = add(n.t, mul(R.NS_DAY, days.t))
    ok2 = eq(r2.d, 0)
    want2 = and_(le(-CAP, s2), le(s2, CAP))
    io.prove("C06.norm.add_days_ok_iff_within_cap", and_(implies(ok2, want2), implies(want2, ok2)))
    if 0 in r2.v:
        p = r2.v[0][0]
        while isinstance(p, symex.Agg):
            p = p.f[0]
        io.prove("C06.norm.add_days_exact", eq(p.t, s2), hyp=ok2)
    io.obligations("C06.norm")


def instant_add(io):
    """AddInstant: exact integer addition of the duration's total nanoseconds, RangeError iff outside +-8.64e21"""
    ns = io.int("ns", "i128", -R.NS_MAX, R.NS_MAX)
    f, total = time_duration(io, 1 << 53)
    io.assume(and_(le(-CAP, total), le(total, CAP)))       # a valid time duration
    td = symex.Agg([symex.Agg([v]) for v in f])
    r = io.call(("Instant", None, "add_to_instant"), [io.ref(symex.Agg([symex.Agg([ns])])), io.ref(td)],
                native=("instant_add", ("result", "i128"), [ns] + f))
    s = add(ns.t, total)
    ok = eq(r.d, 0)
    want = and_(le(-R.NS_MAX, s), le(s, R.NS_MAX))
    io.witness("C06.instant_add.reach")
    io.witness("C06.instant_add.range_error_reachable", not_(ok))
    io.prove("C06.instant_add.ok_iff_sum_in_range", and_(implies(ok, want), implies(want, ok)))
    if 0 in r.v:
        p = r.v[0][0]
        while isinstance(p, symex.Agg):
            p = p.f[0]
        io.prove("C06.instant_add.exact_sum", eq(p.t, s), hyp=ok)
    if 1 in r.v:
        io.prove("C06.instant_add.error_is_range_error", eq(r.v[1][0].f[0].d, 2), hyp=not_(ok))
    io.obligations("C06.instant_add")


def time_add(io, lim):
    """AddTime through PlainTime::add_to_time: per-field balance == (time + exact total) mod 24 h"""
    t = any_time(io)
    f, total = time_duration(io, lim)
    td = symex.Agg([symex.Agg([v]) for v in f])
    r = io.call(("PlainTime", None, "add_to_time"), [io.ref(symex.Agg([symex.Agg(t)])), io.ref(td)],
                native=("plain_time_add", ("result", ("agg", ["u8", "u8", "u8", "u16", "u16", "u16"])), t + f))
    io.witness("C06.time_add.reach")
    ok = eq(r.d, 0)
    io.prove("C06.time_add.never_fails", ok)
    p = r.v[0][0]
    while isinstance(p, symex.Agg) and len(p.f) == 1:
        p = p.f[0]
    io.prove("C06.time_add.fields_valid", fields_valid(p.f), hyp=ok)
    io.prove("C06.time_add.is_exact_sum_mod_day",
             eq(R.time_ns(*[v.t for v in p.f]), emod(add(R.time_ns(*[v.t for v in t]), total), R.NS_DAY)), hyp=ok)
    io.obligations("C06.time_add")


def instant_until(io, since):
    """Instant::until / since with default rounding (smallest unit nanosecond): the exact difference balanced to the
    requested largest unit (hour .. nanosecond, default second); |difference| < 2^53 ns so that every field is an exact double"""
    UN = {1: 1, 2: 10**3, 3: 10**6, 4: 10**9, 5: 60 * 10**9, 6: 3600 * 10**9}       # Unit discriminant -> ns
    a = io.int("a", "i128", -R.NS_MAX, R.NS_MAX)
    b = io.int("b", "i128", -R.NS_MAX, R.NS_MAX)
    io.assume(and_(lt(sub(b.t, a.t), 1 << 53), gt(sub(b.t, a.t), -(1 << 53))))
    has = io.bool("has_largest")
    lu = io.cenum("largest", "Unit", [1, 2, 3, 4, 5, 6])
    if io.kind != "sym":
        r = io.call(None, [], native=("instant_until", ("result", ("agg", ["f64"] * 6)), [a, b, has, lu, symex.Int(1 if since else 0, "u8")]))
    else:
        none = lambda nm: symex.Enum(0, {0: [], 1: [symex.Opaque("unset")]}, "Option")
        largest = symex.Enum(ite(has.t, 1, 0), {0: [], 1: [lu]}, "Option")
        settings = symex.Agg([largest, none("u"), none("m"), none("i")])
        op = symex.Enum(1 if since else 0, {0: [], 1: []}, "DifferenceOperation")
        inst = lambda v: symex.Agg([symex.Agg([v])])
        r = io.call(("Instant", None, "diff_instant"), [io.ref(inst(a)), op, io.ref(inst(b)), settings], native=None)
    diff = sub(a.t, b.t) if since else sub(b.t, a.t)
    unit = ite(has.t, lu.d, 4)
    io.witness("C06.until.reach")
    io.witness("C06.until.negative_difference_in_hours", and_(lt(diff, 0), has.t, eq(lu.d, 6)))
    io.prove("C06.until.succeeds", eq(r.d, 0))
    if 0 in r.v:
        res = r.v[0][0]
        vals = list(res.f[1].f) if io.kind == "sym" else list(res.f)
        g = []
        for v in vals:
            while isinstance(v, symex.Agg):
                v = v.f[0]
            g.append(v.t)
        ok = eq(r.d, 0)
        got = 0
        for v, u in zip(g, [3600 * 10**9, 60 * 10**9, 10**9, 10**6, 10**3, 1]):
            got = add(got, mul(u, v))
        io.prove("C06.until.is_exact_difference", eq(got, diff), hyp=ok)
        io.prove("C06.until.sign_uniform", or_(and_(*[ge(v, 0) for v in g]), and_(*[le(v, 0) for v in g])), hyp=ok)
        CARRY = [None, 60, 60, 1000, 1000, 1000]
        UIDX = [6, 5, 4, 3, 2, 1]                      # field k holds Unit discriminant UIDX[k]
        parts = []
        for k in range(6):
            parts.append(implies(gt(UIDX[k], unit), eq(g[k], 0)))
            if k >= 1:
                parts.append(implies(lt(UIDX[k], unit), and_(lt(g[k], CARRY[k]), gt(g[k], -CARRY[k]))))
        io.prove("C06.until.balanced_to_the_largest_unit", and_(*parts), hyp=ok)
    io.obligations("C06.until")


def time_until(io, since):
    """PlainTime::until / since with default rounding: the exact wall-clock difference (no wrap: -24 h < d < 24 h) balanced to
    the requested largest unit (hour .. nanosecond, default hour)"""
    a = any_time(io)
    b = [io.int("b_" + n, ty, 0, hi) for (n, ty, hi) in TIME_FIELDS]
    has = io.bool("has_largest")
    lu = io.cenum("largest", "Unit", [1, 2, 3, 4, 5, 6])
    if io.kind != "sym":
        r = io.call(None, [], native=("plain_time_until", ("result", ("agg", ["f64"] * 6)), a + b + [has, lu, symex.Int(1 if since else 0, "u8")]))
    else:
        none = lambda nm: symex.Enum(0, {0: [], 1: [symex.Opaque("unset")]}, "Option")
        largest = symex.Enum(ite(has.t, 1, 0), {0: [], 1: [lu]}, "Option")
        settings = symex.Agg([largest, none("u"), none("m"), none("i")])
        op = symex.Enum(1 if since else 0, {0: [], 1: []}, "DifferenceOperation")
        pt = lambda f: symex.Agg([symex.Agg(f)])
        r = io.call(("PlainTime", None, "diff_time"), [io.ref(pt(a)), op, io.ref(pt(b)), settings], native=None)
    na, nb = R.time_ns(*[v.t for v in a]), R.time_ns(*[v.t for v in b])
    diff = sub(na, nb) if since else sub(nb, na)
    unit = ite(has.t, lu.d, 6)
    io.witness("C06.time_until.reach")
    io.witness("C06.time_until.negative_difference", lt(diff, 0))
    io.prove("C06.time_until.succeeds", eq(r.d, 0))
    if 0 in r.v:
        res = r.v[0][0]
        vals = list(res.f[1].f) if io.kind == "sym" else list(res.f)
        g = []
        for v in vals:
            while isinstance(v, symex.Agg):
                v = v.f[0]
            g.append(v.t)
        ok = eq(r.d, 0)
        got = 0
        for v, u in zip(g, [3600 * 10**9, 60 * 10**9, 10**9, 10**6, 10**3, 1]):
            got = add(got, mul(u, v))
        io.prove("C06.time_until.is_exact_difference", eq(got, diff), hyp=ok)
        io.prove("C06.time_until.sign_uniform", or_(and_(*[ge(v, 0) for v in g]), and_(*[le(v, 0) for v in g])), hyp=ok)
        CARRY = [None, 60, 60, 1000, 1000, 1000]
        UIDX = [6, 5, 4, 3, 2, 1]
        parts = []
        for k in range(6):
            parts.append(implies(gt(UIDX[k], unit), eq(g[k], 0)))
            if k >= 1:
                parts.append(implies(lt(UIDX[k], unit), and_(lt(g[k], CARRY[k]), gt(g[k], -CARRY[k]))))
        io.prove("C06.time_until.balanced_to_the_largest_unit", and_(*parts), hyp=ok)
    io.obligations("C06.time_until")


def jobs(tier, seed):
    return [
        ("instant_until", instant_until, {"since": False}, {"timeout": 300, "unroll": 11, "generics": {"T": "i128"}}),
        ("instant_since", instant_until, {"since": True}, {"timeout": 300, "unroll": 11, "generics": {"T": "i128"}}),
        ("time_until", time_until, {"since": False}, {"timeout": 300, "unroll": 11, "generics": {"T": "i128"}}),
        ("time_since", time_until, {"since": True}, {"timeout": 300, "unroll": 11, "generics": {"T": "i128"}}),
        ("epoch_ms", epoch_ms, {}, None),
        ("norm_ops", norm_ops, {}, None),
        ("instant_add[|field|<=2^53]", instant_add, {}, None),
        ("time_add[|field|<2^53-1000]", time_add, {"lim": (1 << 53) - 1000}, None),
    ]
