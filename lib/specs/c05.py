"""C05 - PlainDateTime arithmetic, difference and rounding compose date and exact time (Engine M: the ISO kernels)."""
from mirsmt.terms import *
from mirsmt.terms import add as add_
from mirsmt import symex
from . import refs as R
from .c01 import cyc_day, D_LO, D_HI
from .c04 import any_date
from .c07 import TIME_FIELDS, any_time, resolved, UNIT_NS, ENCLOSING_NS, time_pairs

DT_MAX = R.NS_MAX + R.NS_DAY


def fields_valid(t):
    return and_(*[and_(le(0, v.t), le(v.t, hi)) for v, (_n, _t, hi) in zip(t, TIME_FIELDS)])


def time_balance(io, lim):
    """BalanceTime: for all field values a caller can pass (|field| <= lim), days*86400e9 + time == exact total"""
    names = ["h", "mi", "s", "ms", "us", "ns"]
    v = [io.int(n, "i64", -lim, lim) for n in names]
    r = io.call(("IsoTime", None, "balance"), v,
                native=("iso_time_balance", ("agg", ["i32", ("agg", ["u8", "u8", "u8", "u16", "u16", "u16"])])))
    days, t = r.f
    total = R.time_ns(*[x.t for x in v])
    io.witness("C05.time_balance.reach")
    io.prove("C05.time_balance.fields_valid", fields_valid(t.f))
    io.prove("C05.time_balance.exact_total", eq(add(mul(days.t, R.NS_DAY), R.time_ns(*[x.t for x in t.f])), total),
             hyp=and_(le(-(1 << 31), ediv(total, R.NS_DAY)), le(ediv(total, R.NS_DAY), (1 << 31) - 1)))
    io.obligations("C05.time_balance")


def time_add(io):
    """AddTime: wall-clock time + normalized duration (|ns| below the 2^53 s cap) = exact sum, day carry exact"""
    t = any_time(io)
    cap = 9_007_199_254_740_991_999_999_999
    n = io.int("norm", "i128", -cap, cap)
    r = io.call(("IsoTime", None, "add"), [io.ref(symex.Agg(t)), symex.Agg([n])],
                native=("iso_time_add_nanoseconds", ("agg", ["i32", ("agg", ["u8", "u8", "u8", "u16", "u16", "u16"])]), t + [n]))
    days, rt = r.f
    total = add(R.time_ns(*[x.t for x in t]), n.t)
    io.witness("C05.time_add.reach")
    io.prove("C05.time_add.fields_valid", fields_valid(rt.f))
    io.prove("C05.time_add.time_is_total_mod_day", eq(R.time_ns(*[x.t for x in rt.f]), emod(total, R.NS_DAY)))
    io.prove("C05.time_add.day_carry_exact", eq(days.t, ediv(total, R.NS_DAY)),
             hyp=and_(le(-(1 << 31), ediv(total, R.NS_DAY)), le(ediv(total, R.NS_DAY), (1 << 31) - 1)))
    io.obligations("C05.time_add")


def epoch_nanos_round_trip(io):
    """IsoDateTime::from_epoch_nanos(ns, 0) is the inverse of the UTC epoch-ns of a date-time, for every instant"""
    day = cyc_day(io, -R.DAY_MAX, R.DAY_MAX)
    tod = io.int("tod", "i64", 0, R.NS_DAY - 1)
    ns = symex.Int(add(mul(R.NS_DAY, day.t), tod.t), "i128")
    io.assume(and_(le(-R.NS_MAX, ns.t), le(ns.t, R.NS_MAX)))
    bal = io.spy(("IsoDate", None, "balance"))
    r0 = io.call("ymd_from_epoch_days", [day], native=("ymd_from_epoch_milliseconds", ("agg", ["i32", "u8", "u8"]),
                                                       [symex.Int(mul(day.t, 86_400_000), "i64")]))
    r = io.call(("IsoDateTime", None, "from_epoch_nanos"), [io.ref(symex.Agg([ns])), symex.Int(0, "i64")],
                native=("iso_date_time_from_epoch_nanos", ("result", ("agg", [("agg", ["i32", "u8", "u8"]), ("agg", ["u8", "u8", "u8", "u16", "u16", "u16"])])),
                        [ns, symex.Int(0, "i64")]))
    io.witness("C05.from_epoch_nanos.reach")
    io.prove("C05.from_epoch_nanos.ok", eq(r.d, 0))
    date, t = r.v[0][0].f
    Y, M, D = (f.t for f in date.f)
    io.prove("C05.from_epoch_nanos.valid", and_(R.valid_date(Y, M, D), fields_valid(t.f)))
    io.prove("C05.from_epoch_nanos.time_of_day", eq(R.time_ns(*[x.t for x in t.f]), tod.t))
    if io.kind == "sym":
        # compositional: the date is BalanceISODate(ymd(day)) with no day carry; ymd(day) is the valid date of that
        # day (C01.ymd) and balancing a valid date returns it (C01.balance + C01.ymd)
        io.prove("C05.from_epoch_nanos.balances_once", len(bal) == 1)
        if len(bal) == 1:
            (by, bm, bd), bret, _ = bal[0]
            io.prove("C05.from_epoch_nanos.date_is_balance_of_ymd_of_day",
                     and_(eq(by.t, r0.f[0].t), eq(bm.t, r0.f[1].t), eq(bd.t, r0.f[2].t),
                          *[eq(a.t, b.t) for a, b in zip(date.f, bret.f)]))
    else:
        io.prove("C05.from_epoch_nanos.date_is_day", eq(R.epoch_days(Y, M, D), day.t), hyp=R.valid_date(Y, M, D))
    io.obligations("C05.from_epoch_nanos")


def datetime_round(io, unit, inc):
    """RoundISODateTime: time rounded per RoundTime, carry into the next day, RangeError iff the result leaves the limits"""
    day = cyc_day(io, -R.DAY_MAX - 1, R.DAY_MAX + 1)
    # the receiver date, obtained from the real (C01-verified) day -> date kernel so that it is symbolic over all days
    dd = io.call("ymd_from_epoch_days", [day], native=("ymd_from_epoch_milliseconds", ("agg", ["i32", "u8", "u8"]),
                                                       [symex.Int(mul(day.t, 86_400_000), "i64")]))
    t = any_time(io)
    x = R.time_ns(*[v.t for v in t])
    ns0 = add(mul(R.NS_DAY, day.t), x)
    io.assume(and_(lt(-DT_MAX, ns0), lt(ns0, DT_MAX)))          # a date-time a PlainDateTime can hold
    mode = io.cenum("mode", "RoundingMode", list(range(9)))
    bal = io.spy(("IsoDate", None, "balance"))
    dt = symex.Agg([symex.Agg(list(dd.f)), symex.Agg(t)])
    r = io.call(("IsoDateTime", None, "round"), [io.ref(dt), resolved(unit, inc, mode)],
                native=("iso_date_time_round", ("result", ("agg", [("agg", ["i32", "u8", "u8"]), ("agg", ["u8", "u8", "u8", "u16", "u16", "u16"])])),
                        list(dd.f) + t + [symex.Int(unit, "u8"), symex.Int(inc, "u32"), mode]))
    io.witness("C05.dt_round.reach")
    step = UNIT_NS[unit] * inc
    part = emod(x, ENCLOSING_NS[unit]) if unit in ENCLOSING_NS else x
    rounded = add(sub(x, part), R.round_to_increment(part, step, mode.d))    # ns from midnight, 0..=NS_DAY
    carry = ediv(rounded, R.NS_DAY)
    ns1 = add(mul(R.NS_DAY, day.t), rounded)
    want_ok = and_(lt(-DT_MAX, ns1), lt(ns1, DT_MAX))
    is_ok = eq(r.d, 0)
    if step > 1:
        io.witness("C05.dt_round.carry_reachable", and_(is_ok, eq(carry, 1)))
        io.witness("C05.dt_round.range_error_reachable", not_(is_ok))
    io.prove("C05.dt_round.ok_iff_result_within_limits", and_(implies(is_ok, want_ok), implies(want_ok, is_ok)))
    if 0 in r.v:
        rd, rt = r.v[0][0].f
        io.prove("C05.dt_round.time_part", eq(R.time_ns(*[v.t for v in rt.f]), emod(rounded, R.NS_DAY)), hyp=is_ok)
        if io.kind == "sym":
            io.prove("C05.dt_round.balances_once", len(bal) == 1)
            if len(bal) == 1:
                (by, bm, bd), bret, _ = bal[0]
                io.prove("C05.dt_round.date_is_balance_of_day_plus_carry",
                         and_(eq(by.t, dd.f[0].t), eq(bm.t, dd.f[1].t), eq(bd.t, add(dd.f[2].t, carry)),
                              *[eq(a.t, b.t) for a, b in zip(rd.f, bret.f)]), hyp=is_ok)
        else:
            Y, M, D = (f.t for f in rd.f)
            io.prove("C05.dt_round.date_part", eq(R.epoch_days(Y, M, D), add(day.t, carry)))
    if 1 in r.v:
        io.prove("C05.dt_round.error_is_range_error", eq(r.v[1][0].f[0].d, 2), hyp=not_(is_ok))
    io.obligations("C05.dt_round")


def datetime_add(io, overflow):
    """AddDateTime (IsoDateTime::add_date_duration, behind PlainDateTime::add/subtract): the time part is added with
    nanosecond-exact carry into whole days, and the date part is AddISODate(receiver date, years, months, weeks,
    days + carry) - exactly those arguments (compositional; AddISODate itself is decided in C04)"""
    from .c04 import date_duration
    y, m, d = any_date(io)
    t = any_time(io)
    yrs = io.flt("years", -1000, 1000)
    mos = io.flt("months", -12000, 12000)
    wks = io.flt("weeks", -50000, 50000)
    dys = io.flt("days", -1_000_000, 1_000_000)
    norm = io.int("norm", "i128", -100 * R.NS_DAY, 100 * R.NS_DAY)
    # the date and time parts come from one valid Duration: all fields share a sign
    sv = [yrs.t, mos.t, wks.t, dys.t, norm.t]
    io.assume(or_(and_(*[ge(v, 0) for v in sv]), and_(*[le(v, 0) for v in sv])))
    ov = symex.Enum(overflow, {overflow: []}, "ArithmeticOverflow")
    ov_opt = symex.Enum(1, {0: [], 1: [ov]}, "Option")
    total = add_(R.time_ns(*[v.t for v in t]), norm.t)
    carry = ediv(total, R.NS_DAY)
    if io.kind != "sym":
        # native end-to-end form of the same claim through the public API (PlainDateTime::add with the time part
        # given in nanoseconds): result = AddISODate(date, y, mo, w, d + carry) at time (time + norm) mod 24 h
        # (only mixed-sign-free inputs are a valid Duration; others are skipped natively)
        vals = [yrs.t, mos.t, wks.t, dys.t, norm.t]
        if any(v > 0 for v in vals) and any(v < 0 for v in vals):
            return
        r = io.call(None, [], native=("plain_date_time_add", ("result", ("agg", [("agg", ["i32", "u8", "u8"]), ("agg", ["u8", "u8", "u8", "u16", "u16", "u16"])])),
                                      [y, m, d] + t + [yrs, mos, wks, dys, norm, symex.Int(overflow, "u8")]))
        mi = add_(add_(mul(y.t, 12), sub(m.t, 1)), add_(mul(yrs.t, 12), mos.t))
        Y1, M1 = ediv(mi, 12), add_(emod(mi, 12), 1)
        dm = R.dim(Y1, M1)
        if overflow == 1 and d.t > dm:
            io.prove("C05.dt_add.reject_errors_on_clamped_day", r.d == 1)
            return
        D1 = min(d.t, dm)
        target = R.epoch_days(Y1, M1, D1) + 7 * wks.t + dys.t + carry
        if r.d == 0:
            rd, rt = r.v[0][0].f
            Y, M, D = (f.t for f in rd.f)
            io.prove("C05.dt_add.date_part_is_add_iso_date_of_receiver_date_and_days_plus_carry",
                     R.valid_date(Y, M, D) and R.epoch_days(Y, M, D) == target)
            io.prove("C05.dt_add.time_part_is_sum_mod_day", R.time_ns(*[v.t for v in rt.f]) == emod(total, R.NS_DAY))
        return
    add = io.spy(("IsoDate", None, "add_date_duration"))
    dt = symex.Agg([symex.Agg([y, m, d]), symex.Agg(t)])
    cal = symex.Opaque("calendar:iso")
    r = io.call(("IsoDateTime", None, "add_date_duration"),
                [io.ref(dt), cal, io.ref(date_duration(yrs, mos, wks, dys)), symex.Agg([norm]), ov_opt], native=None)
    io.witness("C05.dt_add.reach")
    io.witness("C05.dt_add.crosses_midnight_with_months", and_(ne(carry, 0), ne(mos.t, 0)))
    # AddDate reaches AddISODate on several enumerated paths (with / without calendar units, short-circuit tests);
    # the claim is stated for every one of them under its own path condition
    io.prove("C05.dt_add.date_added_through_add_iso_date", len(add) >= 1)
    def num(v):
        while isinstance(v, symex.Agg):
            v = v.f[0]
        return v.t
    for i, ((recv, dur, ovf), ret, pc) in enumerate(add):
        here = and_(*pc)
        claim = and_(eq(recv.f[0].t, y.t), eq(recv.f[1].t, m.t), eq(recv.f[2].t, d.t),
                     eq(num(dur.f[0]), yrs.t), eq(num(dur.f[1]), mos.t), eq(num(dur.f[2]), wks.t),
                     eq(num(dur.f[3]), add_(dys.t, carry)), eq(ovf.d, overflow))
        # asked first in the region where the order of operations is observable (month arithmetic from a month-end
        # day with a midnight carry), so that a counterexample replays end-to-end; then in general
        region = and_(ne(mos.t, 0), ge(d.t, 29), ne(carry, 0), eq(yrs.t, 0), eq(wks.t, 0), eq(dys.t, 0),
                      le(-3, mos.t), le(mos.t, 3), le(-R.NS_DAY, norm.t), le(norm.t, R.NS_DAY))
        io.prove("C05.dt_add.date_part_is_add_iso_date_of_receiver_date_and_days_plus_carry[site %d, month-end carry]" % i,
                 claim, hyp=and_(here, region))
        io.prove("C05.dt_add.date_part_is_add_iso_date_of_receiver_date_and_days_plus_carry[site %d]" % i, claim, hyp=here)
    if 0 in r.v:
        rd, rt = r.v[0][0].f
        io.prove("C05.dt_add.time_part_is_sum_mod_day",
                 eq(R.time_ns(*[v.t for v in rt.f]), emod(total, R.NS_DAY)), hyp=eq(r.d, 0))
    io.obligations("C05.dt_add")


def jobs(tier, seed):
    G = {"generics": {"T": "i128"}}
    out = [
        ("time_balance[|field|<=2^53]", time_balance, {"lim": 1 << 53}, None),
        ("time_add", time_add, {}, None),
        ("epoch_nanos_round_trip", epoch_nanos_round_trip, {}, None),
        ("datetime_add[overflow=0]", datetime_add, {"overflow": 0}, None),
        ("datetime_add[overflow=1]", datetime_add, {"overflow": 1}, None),
    ]
    pairs = time_pairs()
    if tier == "quick":
        pairs = [p for p in pairs if p[1] in (1, 5, 8, 15, 20, 3, 12, 500) or p[0] == 7]
    for (u, i) in pairs:
        out.append(("datetime_round[unit=%d,inc=%d]" % (u, i), datetime_round, {"unit": u, "inc": i}, G))
    return out
