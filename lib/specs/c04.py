"""C04 - PlainDate add/subtract/until/since follow Temporal date arithmetic exactly (Engine M: the ISO kernels
AddISODate / DifferenceISODate / BalanceISOYearMonth over the whole date range; duration fields are exact-integer f64)."""
from mirsmt.terms import *
from mirsmt import symex
from . import refs as R
from .c01 import cyc_year, cyc_day, D_LO, D_HI

RANGE_KIND = 2


def date_duration(y, m, w, d):
    return symex.Agg([symex.Agg([y]), symex.Agg([m]), symex.Agg([w]), symex.Agg([d])])


def any_date(io, name=""):
    y = cyc_year(io, R.YEAR_MIN, R.YEAR_MAX, name + "y")
    m = io.int(name + "m", "u8", 1, 12)
    d = io.int(name + "d", "u8", 1, 31)
    io.assume(le(d.t, R.dim(y.t, m.t)))
    ns_noon = add(mul(R.epoch_days(y.t, m.t, d.t), R.NS_DAY), 12 * 3600 * 10**9)
    lim = R.NS_MAX + R.NS_DAY
    io.assume(and_(lt(-lim, ns_noon), lt(ns_noon, lim)))     # a date a PlainDate can hold
    return y, m, d


def balance_year_month(io):
    """BalanceISOYearMonth for every i32 year/month the callers can form"""
    y = io.int("y", "i32", -(1 << 30), (1 << 30))
    m = io.int("m", "i32", -(1 << 30), (1 << 30))
    r = io.call("iso::balance_iso_year_month", [y, m], native=None)
    Y, M = r.f[0].t, r.f[1].t
    io.witness("C04.balance_ym.reach")
    io.prove("C04.balance_ym.month_in_1_12", and_(le(1, M), le(M, 12)))
    io.prove("C04.balance_ym.same_month_index", eq(add(mul(Y, 12), sub(M, 1)), add(mul(y.t, 12), sub(m.t, 1))))
    io.obligations("C04.balance_ym")


def add_date(io, overflow):
    """AddISODate: years/months first, day constrained or rejected, then weeks/days.
    Parametrisation (covers every receiver date and every duration with the stated reach): the receiver date,
    `years`, `weeks`, the intermediate year-month (Y1, M1) and the target epoch day are free; `months` and `days`
    are the unique values that lead there.  Y1 and the target day are cycle-decomposed (see specs/c01.py)."""
    y, m, d = any_date(io)
    yrs = io.flt("years", -600_000, 600_000)
    Y1 = cyc_year(io, -300_000, 300_000, "y1")
    M1 = io.int("m1", "i32", 1, 12)
    mos_t = sub(add(mul(12, sub(sub(Y1.t, y.t), yrs.t)), M1.t), m.t)
    mos = symex.Flt(mos_t)
    wks = io.flt("weeks", -30_000_000, 30_000_000)
    dm = R.dim(Y1.t, M1.t)
    D1 = ite(gt(d.t, dm), dm, d.t)
    tgt = cyc_day(io, -300_000_000, 300_000_000)
    dys_t = sub(sub(tgt.t, R.epoch_days(Y1.t, M1.t, D1)), mul(7, wks.t))
    dys = symex.Flt(dys_t)
    big = 1 << 31
    io.assume(and_(le(-big + 1, mos_t), le(mos_t, big - 1), le(-big + 1, dys_t), le(dys_t, big - 1)))
    io.assume(and_(le(-(1 << 30), add(dys_t, mul(7, wks.t))), le(add(dys_t, mul(7, wks.t)), 1 << 30)))
    ov = symex.Enum(overflow, {overflow: []}, "ArithmeticOverflow")
    bal = io.spy(("IsoDate", None, "balance"))
    r = io.call(("IsoDate", None, "add_date_duration"), [symex.Agg([y, m, d]), io.ref(date_duration(yrs, mos, wks, dys)), ov],
                native=("iso_date_add_date_duration", ("result", ("agg", ["i32", "u8", "u8"])),
                        [y, m, d, yrs, mos, wks, dys, symex.Int(overflow, "u8")]))
    io.witness("C04.add.reach")
    day_ok = True if overflow == 0 else le(d.t, dm)
    lim = R.NS_MAX + R.NS_DAY
    noon1 = add(mul(R.epoch_days(Y1.t, M1.t, D1), R.NS_DAY), 12 * 3600 * 10**9)
    inter_ok = and_(lt(-lim, noon1), lt(noon1, lim))
    want_ok = and_(day_ok, inter_ok)
    is_ok = eq(r.d, 0)
    io.witness("C04.add.ok_reachable", is_ok)
    if overflow == 0:
        io.witness("C04.add.month_end_clamped", and_(is_ok, gt(d.t, dm)))
    in_kernel = and_(le(D_LO, tgt.t), le(tgt.t, D_HI))
    io.prove("C04.add.ok_only_if_intermediate_date_valid", implies(is_ok, want_ok))
    # acceptance is demanded whenever the exact result is a representable day (beyond it every caller errors anyway)
    io.prove("C04.add.ok_if_valid_and_result_representable", implies(and_(want_ok, in_kernel), is_ok))
    if 0 in r.v:
        Y, M, D = (f.t for f in r.v[0][0].f)
        if io.kind == "sym":
            # compositional: the result is BalanceISODate(Y1, M1, D1 + days + 7*weeks) - exactly those arguments -
            # and BalanceISODate itself is decided for every argument in specs/c01.py (balance + ymd_of_day)
            io.prove("C04.add.balances_exactly_once", len(bal) == 1)
            if len(bal) == 1:
                (by, bm, bd), bret, _pc = bal[0]
                io.prove("C04.add.balance_called_with_intermediate_month_and_day_sum",
                         and_(eq(by.t, Y1.t), eq(bm.t, M1.t), eq(bd.t, add(D1, add(dys_t, mul(7, wks.t))))), hyp=is_ok)
                io.prove("C04.add.result_is_that_balance",
                         and_(*[eq(a.t, b.t) for a, b in zip(r.v[0][0].f, bret.f)]), hyp=is_ok)
        else:
            io.prove("C04.add.result_is_valid_date", R.valid_date(Y, M, D), hyp=and_(is_ok, in_kernel))
            io.prove("C04.add.result_is_target_day", eq(R.epoch_days(Y, M, D), tgt.t), hyp=and_(is_ok, in_kernel, R.valid_date(Y, M, D)))
    if 1 in r.v:
        io.prove("C04.add.error_is_range_error", eq(r.v[1][0].f[0].d, RANGE_KIND), hyp=not_(is_ok))
    io.obligations("C04.add")


def lex_cmp(a, b):
    """sign of lexicographic comparison of (y, m, d) triples: -1, 0, 1"""
    (y1, m1, d1), (y2, m2, d2) = a, b
    return ite(lt(y1, y2), -1, ite(gt(y1, y2), 1, ite(lt(m1, m2), -1, ite(gt(m1, m2), 1,
           ite(lt(d1, d2), -1, ite(gt(d1, d2), 1, 0))))))


def diff_date(io, unit, max_dy=None, window=None):
    """DifferenceISODate for every pair of representable dates; unit = largestUnit (7 day, 8 week, 9 month, 10 year).
    With max_dy the second date's year is the first's plus a symbolic offset in -max_dy..=max_dy (the search loops
    only ever look at years adjacent to the end year, so nearby pairs exercise every branch; far pairs: thorough)"""
    if window is not None:
        # both dates inside a window of years (the month/year search loops are tractable there)
        out = []
        for tag, (wlo, whi) in zip(("a", "b"), (window[:2], window[2:] if len(window) == 4 else window[:2])):
            y = io.int(tag + "y", "i32", wlo, whi)
            m = io.int(tag + "m", "u8", 1, 12)
            d = io.int(tag + "d", "u8", 1, 31)
            io.assume(le(d.t, R.dim(y.t, m.t)))
            out.append((y, m, d))
        (y1, m1, d1), (y2, m2, d2) = out
    else:
        y1, m1, d1 = any_date(io, "a")
    if window is not None:
        pass
    elif max_dy is None:
        y2, m2, d2 = any_date(io, "b")
    else:
        dy = io.int("dy", "i32", -max_dy, max_dy)
        y2 = symex.Int(add(y1.t, dy.t), "i32")
        m2 = io.int("bm", "u8", 1, 12)
        d2 = io.int("bd", "u8", 1, 31)
        io.assume(le(d2.t, R.dim(y2.t, m2.t)))
        io.assume(and_(le(R.YEAR_MIN + 1, y2.t), le(y2.t, R.YEAR_MAX - 1)))
    u = symex.Enum(unit, {unit: []}, "Unit")
    r = io.call(("IsoDate", None, "diff_iso_date"),
                [io.ref(symex.Agg([y1, m1, d1])), io.ref(symex.Agg([y2, m2, d2])), u],
                native=("iso_date_diff", ("result", ("agg", ["f64", "f64", "f64", "f64"])),
                        [y1, m1, d1, y2, m2, d2, symex.Int(unit, "u8")]))
    io.witness("C04.diff.reach")
    io.prove("C04.diff.never_fails_on_representable_dates", eq(r.d, 0))
    dd = r.v[0][0]
    def num(v):
        while isinstance(v, symex.Agg):
            v = v.f[0]
        return v.t
    Y, Mo, W, D = (num(f) for f in dd.f)
    e1, e2 = R.epoch_days(y1.t, m1.t, d1.t), R.epoch_days(y2.t, m2.t, d2.t)
    sign = ite(lt(e1, e2), 1, ite(gt(e1, e2), -1, 0))
    ok = eq(r.d, 0)
    io.prove("C04.diff.sign_uniform", and_(*[and_(implies(gt(sign, 0), ge(v, 0)), implies(lt(sign, 0), le(v, 0)),
                                                 implies(eq(sign, 0), eq(v, 0))) for v in (Y, Mo, W, D)]), hyp=ok)
    if unit <= 8:
        io.prove("C04.diff.no_calendar_units_below_month", and_(eq(Y, 0), eq(Mo, 0)), hyp=ok)
        io.prove("C04.diff.is_timeline_distance", eq(add(mul(7, W), D), sub(e2, e1)), hyp=ok)
        if unit == 8:
            io.prove("C04.diff.week_balanced", and_(lt(D, 7), gt(D, -7)), hyp=ok)
        else:
            io.prove("C04.diff.no_weeks", eq(W, 0), hyp=ok)
    else:
        io.prove("C04.diff.no_weeks", eq(W, 0), hyp=ok)
        if unit == 10:
            io.prove("C04.diff.months_below_a_year", and_(lt(Mo, 12), gt(Mo, -12)), hyp=ok)
        else:
            io.prove("C04.diff.no_years", eq(Y, 0), hyp=ok)
        # add-back: start + result == end (AddISODate with constrain)
        mi = add(add(mul(y1.t, 12), sub(m1.t, 1)), add(mul(Y, 12), Mo))
        Yi, Mi = ediv(mi, 12), add(emod(mi, 12), 1)
        dm = R.dim(Yi, Mi)
        Di = ite(gt(d1.t, dm), dm, d1.t)
        io.prove("C04.diff.add_back_reaches_end", eq(add(R.epoch_days(Yi, Mi, Di), D), e2), hyp=ok)
        # balanced: the year-month part does not surpass the end, one more month would (ISODateSurpasses uses the
        # unconstrained start day)
        here = lex_cmp((Yi, Mi, d1.t), (y2.t, m2.t, d2.t))
        mi2 = add(mi, sign)
        Yn, Mn = ediv(mi2, 12), add(emod(mi2, 12), 1)
        nxt = lex_cmp((Yn, Mn, d1.t), (y2.t, m2.t, d2.t))
        io.prove("C04.diff.year_month_part_is_maximal",
                 implies(ne(sign, 0), and_(ne(mul(here, sign), 1), eq(mul(nxt, sign), 1))), hyp=ok)
    io.obligations("C04.diff")


def jobs(tier, seed):
    out = [("balance_year_month", balance_year_month, {}, None)]
    for ov in (0, 1):
        out.append(("add_date[overflow=%d]" % ov, add_date, {"overflow": ov}, None))
    # largestUnit month / year (diff_date(unit=9|10), also with max_dy / window restrictions): the path enumeration of
    # the two search loops does not finish in 15 min even for a two-year window, so those jobs are not registered;
    # month/year differences are covered by the Kani harnesses c04_date_until_{years,months}_2020 (thorough tier)
    for u in (7, 8):
        out.append(("diff_date[largest=%d]" % u, diff_date, {"unit": u}, {"unroll": 14, "timeout": 900, "max_paths": 20000}))
    return out
