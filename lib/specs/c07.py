"""C07 - rounding picks the neighbouring multiple prescribed by the mode (Engine M: the real increment rounder,
generic MIR instantiated at i128, for all values and every admissible increment as a constant)."""
from mirsmt.terms import *
from mirsmt import symex
from . import refs as R

X_MAX = 1 << 100


def rounder(io, inc):
    x = io.int("x", "i128", -X_MAX, X_MAX)
    mode = io.cenum("mode", "RoundingMode", list(range(9)))
    res = io.call(("IncrementRounder", None, "from_signed_num"), [x, symex.Int(inc, "u128")],
                  native=("skip", None))
    if io.kind != "nat":
        io.prove("C07.rounder.constructs", eq(res.d, 0))
        rd = res.v[0][0]
        v = io.call(("IncrementRounder", "Round", "round"), [io.ref(rd), mode],
                    native=("round_i128", ("ok", "i128"), [x, symex.Int(inc, "u128"), mode]))
    else:
        r = io.call(None, [], native=("round_i128", ("result", "i128"), [x, symex.Int(inc, "u128"), mode]))
        io.prove("C07.rounder.constructs", r.d == 0)
        v = r.v[0][0]
    io.witness("C07.rounder.reach")
    ref = R.round_to_increment(x.t, inc, mode.d)
    io.prove("C07.rounder.is_multiple", eq(emod(v.t, inc), 0))
    io.prove("C07.rounder.within_one_increment", and_(lt(sub(v.t, x.t), inc), lt(sub(x.t, v.t), inc)))
    io.prove("C07.rounder.value_per_mode", eq(v.t, ref))
    io.witness("C07.rounder.tie_reachable" if inc % 2 == 0 else "C07.rounder.near_tie_reachable",
               eq(mul(2, emod(x.t, inc)), inc) if inc % 2 == 0 else eq(mul(2, emod(x.t, inc)), inc - 1))
    io.obligations("C07.rounder")


UNIT_NS = {1: 1, 2: 10**3, 3: 10**6, 4: 10**9, 5: 60 * 10**9, 6: 3600 * 10**9, 7: 86400 * 10**9}
# Temporal's RoundTime takes the quantity relative to the next larger unit (hour and day: from midnight)
ENCLOSING_NS = {1: 10**3, 2: 10**6, 3: 10**9, 4: 60 * 10**9, 5: 3600 * 10**9}
TIME_FIELDS = [("hour", "u8", 23), ("minute", "u8", 59), ("second", "u8", 59),
               ("millisecond", "u16", 999), ("microsecond", "u16", 999), ("nanosecond", "u16", 999)]


def any_time(io, prefix=""):
    return [io.int(prefix + n, ty, 0, hi) for (n, ty, hi) in TIME_FIELDS]


def resolved(unit, inc, mode, largest=0):
    """ResolvedRoundingOptions { largest_unit, smallest_unit, increment, rounding_mode }"""
    return symex.Agg([symex.Enum(largest, {largest: []}, "Unit"), symex.Enum(unit, {unit: []}, "Unit"),
                      symex.Agg([symex.Int(inc, "u32")]), mode])


def time_round(io, unit, inc):
    """IsoTime::round for every wall-clock time and mode; (unit, increment) constant per job"""
    f = any_time(io)
    mode = io.cenum("mode", "RoundingMode", list(range(9)))
    x = R.time_ns(*[v.t for v in f])
    res = io.call(("IsoTime", None, "round"), [io.ref(symex.Agg(f)), resolved(unit, inc, mode)],
                  native=("iso_time_round", ("result", ("agg", ["i32", ("agg", ["u8", "u8", "u8", "u16", "u16", "u16"])])),
                          f + [symex.Int(unit, "u8"), symex.Int(inc, "u32"), mode]))
    io.witness("C07.time_round.reach")
    io.prove("C07.time_round.admissible_increment_accepted", eq(res.d, 0))
    days, t = res.v[0][0].f
    step = UNIT_NS[unit] * inc
    part = emod(x, ENCLOSING_NS[unit]) if unit in ENCLOSING_NS else x
    expect = add(sub(x, part), R.round_to_increment(part, step, mode.d))
    got = add(mul(days.t, R.NS_DAY), R.time_ns(*[v.t for v in t.f]))
    valid = and_(*[and_(le(0, v.t), le(v.t, hi)) for v, (_n, _t, hi) in zip(t.f, TIME_FIELDS)])
    io.prove("C07.time_round.fields_valid", valid, hyp=eq(res.d, 0))
    io.prove("C07.time_round.value", eq(got, expect), hyp=eq(res.d, 0))
    if step > 1:
        io.witness("C07.time_round.carries_into_next_day", and_(eq(res.d, 0), eq(expect, R.NS_DAY)))
    io.obligations("C07.time_round")


def instant_round(io, unit, inc):
    """Instant::round_instant for every instant in range and every mode"""
    ns = io.int("ns", "i128", -R.NS_MAX, R.NS_MAX)
    mode = io.cenum("mode", "RoundingMode", list(range(9)))
    inst = symex.Agg([symex.Agg([ns])])      # Instant(EpochNanoseconds(i128))
    res = io.call(("Instant", None, "round_instant"), [io.ref(inst), resolved(unit, inc, mode)],
                  native=("instant_round", ("result", "i128"), [ns, symex.Int(unit, "u8"), symex.Int(inc, "u32"), mode]))
    io.witness("C07.instant_round.reach")
    step = UNIT_NS[unit] * inc
    expect = R.round_to_increment(ns.t, step, mode.d)
    if io.kind == "sym":
        io.prove("C07.instant_round.ok", eq(res.d, 0))
        io.prove("C07.instant_round.value", eq(res.v[0][0].t, expect), hyp=eq(res.d, 0))
    else:
        # natively the public Instant::round also range-checks the rounded value
        inr = and_(le(-R.NS_MAX, expect), le(expect, R.NS_MAX))
        io.prove("C07.instant_round.ok", eq(res.d, 0) == inr)
        if res.d == 0:
            io.prove("C07.instant_round.value", eq(res.v[0][0].t, expect))
    io.obligations("C07.instant_round")


def norm_round(io, unit, inc):
    """NormalizedTimeDuration::round_inner (until/since with smallestUnit): every duration below the 2^53 s cap"""
    cap = 9_007_199_254_740_991_999_999_999
    ns = io.int("ns", "i128", -cap, cap)
    mode = io.cenum("mode", "RoundingMode", list(range(9)))
    step = UNIT_NS[unit] * inc
    res = io.call(("NormalizedTimeDuration", None, "round_inner"),
                  [io.ref(symex.Agg([ns])), symex.Int(step, "u128"), mode],
                  native=("norm_round", ("result", "i128"), [ns, symex.Int(unit, "u8"), symex.Int(inc, "u32"), mode]))
    io.witness("C07.norm_round.reach")
    expect = R.round_to_increment(ns.t, step, mode.d)
    within = and_(le(-cap, expect), le(expect, cap))
    io.prove("C07.norm_round.ok_iff_result_within_cap", eq(res.d, 0) == within if is_c(res.d) and is_c(within)
             else and_(implies(eq(res.d, 0), within), implies(within, eq(res.d, 0))))
    if 0 in res.v:
        pay = res.v[0][0]
        val = pay.f[0].t if isinstance(pay, symex.Agg) else pay.t
        io.prove("C07.norm_round.value", eq(val, expect), hyp=eq(res.d, 0))
    io.obligations("C07.norm_round")


def mode_tables(io):
    """NegateRoundingMode and GetUnsignedRoundingMode against the specification tables"""
    mode = io.cenum("mode", "RoundingMode", list(range(9)))
    pos = io.bool("positive")
    n = io.call(("RoundingMode", None, "negate"), [mode], native=("negate_mode", ("enum", "RoundingMode")))
    m = mode.d
    ref_neg = ite(eq(m, 0), 1, ite(eq(m, 1), 0, ite(eq(m, 4), 5, ite(eq(m, 5), 4, m))))
    io.witness("C07.modes.reach")
    io.prove("C07.modes.negate_table", eq(n.d, ref_neg))
    u = io.call(("RoundingMode", None, "get_unsigned_round_mode"), [mode, pos],
                native=("unsigned_mode", ("enum", "UnsignedRoundingMode")))
    p = pos.t
    # UnsignedRoundingMode: Infinity 0, Zero 1, HalfInfinity 2, HalfZero 3, HalfEven 4
    ref_u = ite(eq(m, 0), ite(p, 0, 1), ite(eq(m, 1), ite(p, 1, 0), ite(eq(m, 2), 0, ite(eq(m, 3), 1,
            ite(eq(m, 4), ite(p, 2, 3), ite(eq(m, 5), ite(p, 3, 2), ite(eq(m, 6), 2, ite(eq(m, 7), 3, 4))))))))
    io.prove("C07.modes.unsigned_table", eq(u.d, ref_u))
    io.obligations("C07.modes")


def divisors(n):
    return [d for d in range(1, n + 1) if n % d == 0]


def time_pairs():
    """(unit, increment) pairs admissible for PlainTime / PlainDateTime / duration rounding"""
    out = []
    for u in (1, 2, 3):
        out += [(u, d) for d in divisors(1000) if d < 1000]
    for u in (4, 5):
        out += [(u, d) for d in divisors(60) if d < 60]
    out += [(6, d) for d in divisors(24) if d < 24]
    out.append((7, 1))
    return out


def instant_pairs(tier, seed):
    """(unit, increment) admissible for Instant.round: increment*unit divides one day, increment <= 1e9"""
    day = {6: 24, 5: 1440, 4: 86400, 3: 86_400_000, 2: 86_400_000_000, 1: 86_400_000_000_000}
    allp = []
    for u, total in day.items():
        # divisors via prime factorisation of 2^a 3^b 5^c
        ds = set()
        a = 0
        while total % (2 ** (a + 1)) == 0:
            a += 1
        b = 0
        while total % (3 ** (b + 1)) == 0:
            b += 1
        c = 0
        while total % (5 ** (c + 1)) == 0:
            c += 1
        for i in range(a + 1):
            for j in range(b + 1):
                for k in range(c + 1):
                    d = 2 ** i * 3 ** j * 5 ** k
                    if d <= 1_000_000_000:
                        ds.add(d)
        allp += [(u, d) for d in sorted(ds)]
    if tier == "thorough":
        return allp
    # quick: every odd increment, every prime power, the extremes, plus a seed-chosen sample
    import random
    rnd = random.Random(seed)
    def pp(d):
        return any(d == p ** k for p in (2, 3, 5) for k in range(1, 40))
    core = [(u, d) for (u, d) in allp if d % 2 == 1 or pp(d) or d == max(x for (uu, x) in allp if uu == u)]
    rest = [p for p in allp if p not in core]
    return core + rnd.sample(rest, min(40, len(rest)))


def jobs(tier, seed):
    G = {"generics": {"T": "i128"}}
    out = [("mode_tables", mode_tables, {}, None)]
    steps = sorted({UNIT_NS[u] * i for (u, i) in time_pairs()} | {UNIT_NS[u] * i for (u, i) in instant_pairs(tier, seed)})
    for st in steps:
        out.append(("rounder[step=%d]" % st, rounder, {"inc": st}, G))
    for (u, i) in time_pairs():
        out.append(("time_round[unit=%d,inc=%d]" % (u, i), time_round, {"unit": u, "inc": i}, G))
    for (u, i) in instant_pairs(tier, seed):
        out.append(("instant_round[unit=%d,inc=%d]" % (u, i), instant_round, {"unit": u, "inc": i}, G))
    for (u, i) in time_pairs():
        if u != 7:
            out.append(("norm_round[unit=%d,inc=%d]" % (u, i), norm_round, {"unit": u, "inc": i}, G))
    return out


VALIDATION = [
    # rounding::tests inputs
    (rounder, {"inc": 2}, [{"x": -9, "mode": 0}, {"x": -9, "mode": 1}], {"T": "i128"}),
    (rounder, {"inc": 3}, [{"x": -14, "mode": 6}], {"T": "i128"}),
    (rounder, {"inc": 1800000000000}, [{"x": -84082624864197532, "mode": 6}], {"T": "i128"}),
    (rounder, {"inc": 5}, [{"x": 627, "mode": 6}, {"x": -2, "mode": 5}, {"x": 557, "mode": 8}], {"T": "i128"}),
]
