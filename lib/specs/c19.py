"""C19 - the compiled-data convenience layer is thin (Engine M: every wrapper in src/builtins/compiled/*.rs is executed
symbolically with its `*_with_provider` twin left uninterpreted; the wrapper must call exactly its own twin, pass its own
arguments in order followed by the process-wide provider, and return the twin's result)."""
import re
from mirsmt.terms import *
from mirsmt import symex

# accessors whose disagreement can be confirmed natively (mrun hook `zdt_wrapper_vs_twin`)
ACCESSORS = ["year", "month", "day", "hour", "minute", "second", "millisecond", "microsecond", "nanosecond"]
PROBE_INSTANTS = [1_234_567_891_234_567_891, 951_782_400_000_000_000 + 86_399_987_654_321, -1]


def wrappers(ex):
    out = []
    for name, fl in ex.fns.items():
        m = re.match(r"^(?:builtins::)?compiled::(\w+)::<impl at (src/builtins/compiled/[\w/]+\.rs):(\d+):\d+: \d+:\d+>::(\w+)$", name)
        if m:
            out.append((m.group(1), m.group(4), fl[0]))
    return sorted(out, key=lambda x: (x[0], x[1]))


def compiled_wiring(io):
    if io.kind != "sym":
        # native confirmation for the accessors: wrapper and twin on concrete fixed-offset receivers
        for i, acc in enumerate(ACCESSORS):
            same = True
            for ns in PROBE_INSTANTS:
                r = io.call(None, [], native=("zdt_wrapper_vs_twin", ("agg", ["i64", "i64"]),
                                              [symex.Int(i, "u8"), symex.Int(ns, "i128"), symex.Int(330, "i16")]))
                same = same and (r.f[0].t == r.f[1].t)
            io.prove("C19.compiled.zoneddatetime.%s.forwards_to_own_twin" % acc, same)
        return
    ex = io.s.ex
    ex.opaque_calls = re.compile(r"_with_provider$")
    covered, skipped = 0, []
    for (mod, meth, fn) in wrappers(ex):
        fn.parse()
        args = [symex.Opaque("arg%d" % i) for i in range(len(fn.args))]
        ex.call_log = []
        st = symex.State()
        try:
            ret = ex._exec_fn(st, fn, list(args), 0)
        except (symex.NotEncodable, symex.Diverge) as e:
            skipped.append("%s::%s (%s)" % (mod, meth, str(e)[:60]))
            continue
        label = "C19.compiled.%s.%s.forwards_to_own_twin" % (mod, meth)
        log = ex.call_log
        if len(log) != 1:
            skipped.append("%s::%s (%d provider calls)" % (mod, meth, len(log)))
            continue
        callee, cargs, cres = log[0]
        own = callee.split("::")[-1] == meth + "_with_provider"
        same_args = len(cargs) == len(args) + 1 and all(a is b for a, b in zip(cargs, args)) \
            and isinstance(cargs[-1], symex.Opaque) and cargs[-1].tag == "provider"
        direct = ret is cres
        if not direct:
            # post-processed results (e.g. map / ? on the twin's value) are outside this syntactic claim
            skipped.append("%s::%s (result post-processed)" % (mod, meth))
            io.prove(label + ".calls_own_twin_with_own_arguments", own and same_args)
            covered += 1
            continue
        io.prove(label, own and same_args and direct)
        covered += 1
    io.prove("C19.compiled.some_wrappers_covered", covered >= 20)
    io.witness("C19.compiled.reach")


def jobs(tier, seed):
    return [("compiled_wiring", compiled_wiring, {}, None)]
