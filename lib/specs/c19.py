"""C19 - the compiled-data convenience layer is thin (Engine M: every wrapper in src/builtins/compiled/*.rs is executed
symbolically with its `*_with_provider` twin left uninterpreted; the wrapper must call exactly its own twin, pass its own
arguments in order followed by the process-wide provider, and return the twin's result)."""
import re
from mirsmt.terms import *
from mirsmt import symex

# accessors whose disagreement can be confirmed natively (mrun hook `zdt_wrapper_vs_twin`)
ACCESSORS = ["year", "month", "day", "hour", "minute", "second", "millisecond", "microsecond", "nanosecond",
             "day_of_week", "day_of_year", "week_of_year", "year_of_week", "days_in_week", "days_in_month", "days_in_year",
             "months_in_year", "in_leap_year", "hours_in_day", "offset_nanoseconds", "since", "until", "start_of_day", "add", "subtract"]
# probe receivers for the native confirmation (fixed-offset zone +05:30): arbitrary instants, ISO-week year edges
# (2024-12-30, 2021-01-02), a month end (2024-05-31)
PROBE_INSTANTS = [1_234_567_891_234_567_891, 951_782_400_000_000_000 + 86_399_987_654_321, -1,
                  1_735_560_000_000_000_000, 1_609_574_400_000_000_000, 1_717_113_600_000_000_000]
# wrappers this syntactic check cannot execute (strings, closures over trait objects); a wrapper missing from the
# covered set without being listed here makes the job inconclusive instead of silently shrinking the claim
EXPECTED_UNCOVERED = {"zoneddatetime::fmt", "zoneddatetime::with_plain_time"}


def wrappers(ex):
    out = []
    for name, fl in ex.fns.items():
        m = re.match(r"^(?:builtins::)?compiled::(\w+)::<impl at (src/builtins/compiled/[\w/]+\.rs):(\d+):\d+: \d+:\d+>::(\w+)$", name)
        if m:
            out.append((m.group(1), m.group(4), fl[0]))
    return sorted(out, key=lambda x: (x[0], x[1]))


def compiled_wiring(io):
    if io.kind != "sym":
        # native confirmation for the accessors: wrapper and twin on concrete fixed-offset receivers
        for i, acc in enumerate(ACCESSORS):
            same = True
            for ns in PROBE_INSTANTS:
                r = io.call(None, [], native=("zdt_wrapper_vs_twin", ("agg", ["i64", "i64"]),
                                              [symex.Int(i, "u8"), symex.Int(ns, "i128"), symex.Int(330, "i16")]))
                same = same and (r.f[0].t == r.f[1].t)
            io.prove("C19.compiled.zoneddatetime.%s.forwards_to_own_twin" % acc, same)
            io.prove("C19.compiled.zoneddatetime.%s.forwards_to_own_twin.calls_own_twin_with_own_arguments" % acc, same)
        return
    ex = io.s.ex
    ex.opaque_calls = re.compile(r"_with_provider$")
    covered, skipped = 0, []
    for (mod, meth, fn) in wrappers(ex):
        fn.parse()
        args = [symex.Opaque("arg%d" % i) for i in range(len(fn.args))]
        ex.call_log = []
        st = symex.State()
        try:
            ret = ex._exec_fn(st, fn, list(args), 0)
        except (symex.NotEncodable, symex.Diverge) as e:
            skipped.append("%s::%s (%s)" % (mod, meth, str(e)[:60]))
            continue
        label = "C19.compiled.%s.%s.forwards_to_own_twin" % (mod, meth)
        log = ex.call_log
        if len(log) != 1:
            skipped.append("%s::%s (%d provider calls)" % (mod, meth, len(log)))
            continue
        callee, cargs, cres = log[0]
        own = callee.split("::")[-1] == meth + "_with_provider"
        same_args = len(cargs) == len(args) + 1 and all(a is b for a, b in zip(cargs, args)) \
            and isinstance(cargs[-1], symex.Opaque) and cargs[-1].tag == "provider"
        direct = ret is cres
        if not direct:
            # post-processed results (e.g. map / ? on the twin's value) are outside this syntactic claim
            skipped.append("%s::%s (result post-processed)" % (mod, meth))
            io.prove(label + ".calls_own_twin_with_own_arguments", own and same_args)
            covered += 1
            continue
        io.prove(label, own and same_args and direct)
        covered += 1
    names = sorted(x.split(" ")[0] for x in skipped if "result post-processed" not in x)
    unexpected = [n for n in names if n not in EXPECTED_UNCOVERED]
    if unexpected:
        raise symex.NotEncodable("wrappers no longer covered by the wiring check: " + ", ".join(unexpected))
    io.prove("C19.compiled.some_wrappers_covered", covered >= 20)
    io.witness("C19.compiled.reach")


def jobs(tier, seed):
    return [("compiled_wiring", compiled_wiring, {}, None)]
