"""C14 - ZonedDateTime arithmetic is wall-clock for dates, exact for times (Engine M, synthetic solver-chosen zone as in C13)."""
from mirsmt.terms import *
from mirsmt import symex
from . import refs as R
from .c13 import install_zone, BASE_DAY, NS, DAY


def zone_inputs(io, max_off, whole_hours=False):
    t = io.int("t", "i64", BASE_DAY * 86400, BASE_DAY * 86400 + 86399)
    before = io.int("before", "i64", -max_off, max_off)
    after = io.int("after", "i64", -max_off, max_off)
    if whole_hours:
        io.assume(and_(eq(emod(before.t, 3600), 0), eq(emod(after.t, 3600), 0)))
    return t, before, after


def first_instant_of_local_day(l0, t, before, after):
    """l0: local midnight (ns).  Candidates as in C13; if midnight itself is skipped the day starts at the transition"""
    tn = mul(NS, t)
    c1, c2 = sub(l0, mul(NS, before)), sub(l0, mul(NS, after))
    v1, v2 = lt(c1, tn), ge(c2, tn)
    lo = ite(lt(c1, c2), c1, c2)
    return ite(and_(v1, v2), lo, ite(v1, c1, ite(v2, c2, tn)))


def zdt(e):
    # ZonedDateTime { instant: Instant(EpochNanoseconds(i128)), calendar, tz }
    return symex.Agg([symex.Agg([symex.Agg([e])]), symex.Opaque("calendar:iso"),
                      symex.Enum(0, {0: [symex.Opaque("Syn/Zone")]}, "TimeZone")])


def day_length(io, max_off):
    """start_of_day = first instant of the local calendar day; hours_in_day = real elapsed length of that day"""
    t, before, after = zone_inputs(io, max_off, whole_hours=True)
    e = io.int("e", "i128", BASE_DAY * DAY, (BASE_DAY + 1) * DAY - 1)
    local = add(e.t, mul(NS, ite(ge(e.t, mul(NS, t.t)), after.t, before.t)))
    l0 = mul(DAY, ediv(local, DAY))
    want_start = first_instant_of_local_day(l0, t.t, before.t, after.t)
    want_next = first_instant_of_local_day(add(l0, DAY), t.t, before.t, after.t)
    length = sub(want_next, want_start)
    if io.kind != "sym":
        r1 = io.call(None, [], native=("syn_zone_start_of_day", ("result", "i128"), [t, before, after, e]))
        r2 = io.call(None, [], native=("syn_zone_hours_in_day", ("result", "u8"), [t, before, after, e]))
    else:
        install_zone(io, t.t, before.t, after.t)
        z = zdt(e)
        r1 = io.call(("ZonedDateTime", None, "start_of_day_with_provider"), [io.ref(z), io.ref(symex.Opaque("provider"))], native=None)
        r2 = io.call(("ZonedDateTime", None, "hours_in_day_with_provider"), [io.ref(z), io.ref(symex.Opaque("provider"))], native=None)
    io.witness("C14.day.reach")
    io.witness("C14.day.transition_inside_this_day", ne(length, DAY))
    small_gap = le(sub(after.t, before.t), 3 * 3600)
    io.prove("C14.day.start_of_day_succeeds[skipped interval <= 3 h]", eq(r1.d, 0), hyp=small_gap)
    io.prove("C14.day.start_of_day_succeeds", eq(r1.d, 0))
    if 0 in r1.v:
        p = r1.v[0][0]
        if isinstance(p, symex.Agg) and len(p.f) == 3:
            p = p.f[0]          # the resulting ZonedDateTime's instant
        while isinstance(p, symex.Agg):
            p = p.f[0]
        io.prove("C14.day.start_of_day_is_first_instant_of_local_day", eq(p.t, want_start), hyp=eq(r1.d, 0))
    io.prove("C14.day.hours_in_day_succeeds[skipped interval <= 3 h]", eq(r2.d, 0), hyp=small_gap)
    io.prove("C14.day.hours_in_day_succeeds", eq(r2.d, 0))
    if 0 in r2.v:
        h = mul(r2.v[0][0].t, 3600 * NS)
        ok = and_(eq(r2.d, 0), gt(length, 0), le(length, 255 * 3600 * NS))
        # the API returns whole hours (u8): the whole-hour part of the real length must be right for every zone,
        # and the value is the real length exactly whenever that is a whole number of hours
        io.prove("C14.day.hours_in_day_is_whole_hours_of_real_length", and_(le(h, length), lt(length, add(h, 3600 * NS))), hyp=ok)
        io.prove("C14.day.hours_in_day_is_real_length[whole-hour days]", eq(h, length), hyp=and_(ok, eq(emod(length, 3600 * NS), 0)))
        io.prove("C14.day.hours_in_day_is_real_length", eq(h, length), hyp=ok)
    io.obligations("C14.day")


def zdt_add(io, max_off, max_days):
    """AddZonedDateTime: days on the wall clock (re-resolved with the compatible rule), time units on the exact timeline"""
    from .c13 import expected
    from .c06 import UNITS
    t, before, after = zone_inputs(io, max_off)
    e = io.int("e", "i128", (BASE_DAY - 2) * DAY, (BASE_DAY + 3) * DAY - 1)
    days = io.flt("days", -max_days, max_days)
    hrs = io.flt("hours", -72, 72)
    mins = io.flt("minutes", -4000, 4000)
    nsf = io.flt("nanoseconds", -10**12, 10**12)
    # a valid duration is sign-uniform
    fl = [days, hrs, mins, nsf]
    io.assume(or_(and_(*[ge(f.t, 0) for f in fl]), and_(*[le(f.t, 0) for f in fl])))
    total = add(mul(3600 * NS, hrs.t), add(mul(60 * NS, mins.t), nsf.t))
    local = add(e.t, mul(NS, ite(ge(e.t, mul(NS, t.t)), after.t, before.t)))
    moved = add(local, mul(DAY, days.t))
    # the synthetic environment knows 2000-06-10..20 only
    io.assume(and_(ge(moved, (BASE_DAY - 5) * DAY), lt(moved, (BASE_DAY + 6) * DAY)))
    ok, val, both, none = expected(moved, t.t, before.t, after.t, 0)
    want = ite(eq(days.t, 0), add(e.t, total), add(val, total))
    if io.kind != "sym":
        r = io.call(None, [], native=("syn_zone_zdt_add", ("result", "i128"), [t, before, after, e, days, hrs, mins, nsf]))
    else:
        install_zone(io, t.t, before.t, after.t)
        z = zdt(e)
        Z = lambda: symex.Agg([symex.Flt(0)])
        dur = symex.Agg([symex.Agg([Z(), Z(), Z(), symex.Agg([days])]),
                         symex.Agg([symex.Agg([hrs]), symex.Agg([mins]), Z(), Z(), Z(), symex.Agg([nsf])])])
        r = io.call(("ZonedDateTime", None, "add_as_instant"),
                    [io.ref(z), io.ref(dur), symex.Enum(0, {0: [], 1: []}, "ArithmeticOverflow"), io.ref(symex.Opaque("provider"))], native=None)
    io.witness("C14.add.reach")
    io.witness("C14.add.lands_in_gap", and_(ne(days.t, 0), none))
    io.witness("C14.add.lands_in_overlap", and_(ne(days.t, 0), both))
    io.witness("C14.add.crosses_transition_by_time_part", and_(lt(e.t, mul(NS, t.t)), ge(want, mul(NS, t.t)), ne(before.t, after.t)))
    io.prove("C14.add.succeeds", eq(r.d, 0))
    if 0 in r.v:
        p = r.v[0][0]
        while isinstance(p, symex.Agg):
            p = p.f[0]
        io.prove("C14.add.time_only_is_exact_elapsed_time", eq(p.t, add(e.t, total)), hyp=and_(eq(r.d, 0), eq(days.t, 0)))
        io.prove("C14.add.days_on_wall_clock_then_exact_time", eq(p.t, want), hyp=eq(r.d, 0))
    io.obligations("C14.add")


def zdt_diff(io, max_off):
    """DifferenceZonedDateTime with largestUnit day: a sign-uniform (days, time) pair which AddZonedDateTime maps from the
    receiver exactly onto the other instant"""
    from .c13 import expected
    t, before, after = zone_inputs(io, max_off)
    e1 = io.int("e1", "i128", (BASE_DAY - 2) * DAY, (BASE_DAY + 3) * DAY - 1)
    e2 = io.int("e2", "i128", (BASE_DAY - 2) * DAY, (BASE_DAY + 3) * DAY - 1)
    if io.kind != "sym":
        r = io.call(None, [], native=("syn_zone_zdt_until_days", ("result", ("agg", ["i64", "i128"])), [t, before, after, e1, e2]))
    else:
        install_zone(io, t.t, before.t, after.t)
        r = io.call(("ZonedDateTime", None, "diff_zoned_datetime"),
                    [io.ref(zdt(e1)), io.ref(zdt(e2)), symex.Enum(7, {7: []}, "Unit"), io.ref(symex.Opaque("provider"))], native=None)
    tn = mul(NS, t.t)
    off = lambda e: ite(ge(e, tn), after.t, before.t)
    l1 = add(e1.t, mul(NS, off(e1.t)))
    sign = ite(lt(e2.t, e1.t), -1, ite(gt(e2.t, e1.t), 1, 0))
    io.witness("C14.diff.reach")
    io.witness("C14.diff.straddles_transition", and_(lt(e1.t, tn), ge(e2.t, tn), ne(before.t, after.t)))
    io.witness("C14.diff.backwards_across_transition", and_(lt(e2.t, tn), ge(e1.t, tn), ne(before.t, after.t)))
    io.prove("C14.diff.succeeds", eq(r.d, 0))
    if 0 in r.v:
        rec = r.v[0][0]
        if io.kind == "sym":
            date, norm = rec.f
            yrs, mos, wks, dys = (f.f[0] if isinstance(f, symex.Agg) else f for f in date.f)
            p = norm
            while isinstance(p, symex.Agg):
                p = p.f[0]
            D, Tm = dys.t, p.t
            io.prove("C14.diff.no_larger_units_than_days", and_(eq(yrs.t, 0), eq(mos.t, 0), eq(wks.t, 0)), hyp=eq(r.d, 0))
        else:
            D, Tm = rec.f[0].t, rec.f[1].t
        ok = eq(r.d, 0)
        io.prove("C14.diff.sign_uniform", and_(ge(mul(sign, D), 0) if is_c(sign) else ite(eq(sign, 1), ge(D, 0), ite(eq(sign, -1), le(D, 0), eq(D, 0))),
                                               ite(eq(sign, 1), ge(Tm, 0), ite(eq(sign, -1), le(Tm, 0), eq(Tm, 0)))), hyp=ok)
        moved = add(l1, mul(DAY, D))
        _, val, _, _ = expected(moved, t.t, before.t, after.t, 0)
        back = ite(eq(D, 0), add(e1.t, Tm), add(val, Tm))
        io.prove("C14.diff.add_maps_receiver_onto_other", eq(back, e2.t), hyp=and_(ok, le(-6, D), le(D, 6)))
        io.prove("C14.diff.day_count_bounded_by_distance", and_(le(-6, D), le(D, 6)), hyp=ok)
    io.obligations("C14.diff")


def jobs(tier, seed):
    return [
        ("day_length[|offset|<=12h, whole hours]", day_length, {"max_off": 12 * 3600}, {"timeout": 600}),
        ("zdt_add[|offset|<=12h, |days|<=3]", zdt_add, {"max_off": 12 * 3600, "max_days": 3}, {"timeout": 900, "unroll": 5}),
        # zdt_diff (DifferenceZonedDateTime) is written above but not registered: the day-correction loop re-resolves the
        # wall-clock time up to three times per path and the path enumeration does not finish within 20 min
    ]
