"""C09 (Engine M part) - Duration::compare without relativeTo is the total order of the exact totals
(days count 24 h), for unbalanced fields as well.  Fields are integral doubles within the exact-float envelope
(|days| <= 1e8, other fields <= 2^40): beyond that the Kani validity harnesses apply."""
from mirsmt.terms import *
from mirsmt import symex

UNITS = [86_400 * 10**9, 3600 * 10**9, 60 * 10**9, 10**9, 10**6, 10**3, 1]
NAMES = ["days", "hours", "minutes", "seconds", "milliseconds", "microseconds", "nanoseconds"]


def _duration(io, tag, lim):
    f = [io.flt(tag + "_" + n, -(10**8 if n == "days" else lim), (10**8 if n == "days" else lim)) for n in NAMES]
    # a valid duration is sign-uniform
    io.assume(or_(and_(*[ge(v.t, 0) for v in f]), and_(*[le(v.t, 0) for v in f])))
    total = 0
    for v, u in zip(f, UNITS):
        total = add(total, mul(u, v.t))
    Z = lambda: symex.Agg([symex.Flt(0)])
    W = lambda v: symex.Agg([v])
    dur = symex.Agg([symex.Agg([Z(), Z(), Z(), W(f[0])]), symex.Agg([W(v) for v in f[1:]])])
    return f, total, dur


def compare_no_relative(io, lim):
    fa, ta, da = _duration(io, "a", lim)
    fb, tb, db = _duration(io, "b", lim)
    if io.kind != "sym":
        r = io.call(None, [], native=("duration_compare", ("result", "i8"), fa + fb))
    else:
        none = symex.Enum(0, {0: [], 1: [symex.Opaque("relative_to")]}, "Option")
        r = io.call(("Duration", None, "compare_with_provider"), [io.ref(da), io.ref(db), none, io.ref(symex.Opaque("provider"))], native=None)
    want = ite(lt(ta, tb), -1, ite(gt(ta, tb), 1, 0))
    io.witness("C09.compare.reach")
    io.witness("C09.compare.unbalanced_sub_second_fields_decide", and_(eq(fa[0].t, fb[0].t), eq(fa[1].t, fb[1].t), eq(fa[2].t, fb[2].t),
                                                                        eq(fa[3].t, fb[3].t), eq(fa[4].t, fb[4].t), gt(fa[5].t, 1000), ne(want, 0)))
    io.prove("C09.compare.succeeds_without_calendar_units", eq(r.d, 0))
    if 0 in r.v:
        o = r.v[0][0]
        got = o.d if isinstance(o, symex.Enum) else o.t
        # first with everything above the microsecond equal (the region the field-wise shortcuts live in), then in general
        same_head = and_(*[eq(x.t, y.t) for x, y in list(zip(fa, fb))[:5]])
        io.prove("C09.compare.is_order_of_exact_totals[fields above the microsecond equal]", eq(got, want), hyp=and_(eq(r.d, 0), same_head))
        io.prove("C09.compare.is_order_of_exact_totals", eq(got, want), hyp=eq(r.d, 0))
    io.obligations("C09.compare")


def duration_add(io, lim, subtract=False):
    """Duration::add / subtract of calendar-free durations: the exact sum of the totals, balanced to the larger of the
    operands' largest units (every field below its carry, largest field absorbing the rest), sign-uniform"""
    fa, ta, da = _duration(io, "a", lim)
    fb, tb, db = _duration(io, "b", lim)
    if io.kind != "sym":
        r = io.call(None, [], native=("duration_add", ("result", ("agg", ["f64"] * 7)), fa + fb + [symex.Int(1 if subtract else 0, "u8")]))
    else:
        r = io.call(("Duration", None, "subtract" if subtract else "add"), [io.ref(da), io.ref(db)], native=None)
    total = sub(ta, tb) if subtract else add(ta, tb)
    # largest unit: index of the first non-zero field over both operands (0 = days ... 6 = nanoseconds)
    first = 6
    for k in range(5, -1, -1):
        first = ite(or_(ne(fa[k].t, 0), ne(fb[k].t, 0)), k, first)
    io.witness("C09.add.reach")
    io.witness("C09.add.opposite_signs", and_(gt(ta, 0), lt(tb, 0)))
    io.witness("C09.add.largest_unit_is_minutes", eq(first, 2))
    io.prove("C09.add.succeeds_within_the_limits", eq(r.d, 0))
    if 0 in r.v:
        res = r.v[0][0]
        if io.kind == "sym":
            date, time = res.f
            vals = [date.f[3]] + list(time.f)
            zero_date = and_(*[eq(_num(x), 0) for x in date.f[:3]])
            io.prove("C09.add.no_calendar_units_in_the_result", zero_date, hyp=eq(r.d, 0))
        else:
            vals = list(res.f)
        g = [_num(v) for v in vals]
        got = 0
        for v, u in zip(g, UNITS):
            got = add(got, mul(u, v))
        ok = eq(r.d, 0)
        io.prove("C09.add.is_exact_sum_of_totals", eq(got, total), hyp=ok)
        io.prove("C09.add.sign_uniform", or_(and_(*[ge(v, 0) for v in g]), and_(*[le(v, 0) for v in g])), hyp=ok)
        CARRY = [None, 24, 60, 60, 1000, 1000, 1000]
        parts = []
        for k in range(7):
            parts.append(implies(lt(k, first), eq(g[k], 0)))                    # nothing above the largest unit
            if k >= 1:
                parts.append(implies(gt(k, first), and_(lt(g[k], CARRY[k]), gt(g[k], -CARRY[k]))))   # balanced below it
        io.prove("C09.add.balanced_to_the_larger_largest_unit", and_(*parts), hyp=ok)
    io.obligations("C09.add")


def _num(v):
    while isinstance(v, symex.Agg):
        v = v.f[0]
    return v.t


def jobs(tier, seed):
    G = {"timeout": 300, "generics": {"T": "i64"}}
    return [("compare_no_relative[|field|<=2^40]", compare_no_relative, {"lim": 1 << 40}, G),
            ("duration_add[|field|<=2^40]", duration_add, {"lim": 1 << 40}, G),
            ("duration_subtract[|field|<=2^40]", duration_add, {"lim": 1 << 40, "subtract": True}, G)]
