"""C13 - wall-clock <-> instant conversion follows the zone's offsets and the options (Engine M).

The time zone is synthetic and *chosen by the solver*: one transition at a symbolic second, symbolic offsets before and
after (any size up to the stated bound), supplied to the real `TimeZone::get_epoch_nanoseconds_for` /
`get_iso_datetime_for` MIR as the environment (`TimeZoneProvider` methods = the brute-force definition).  Local date-times
range over every nanosecond of 2000-06-15 (date arithmetic itself is C01/C04/C05's subject); the +-3 h probes and the
gap shifts may leave that day, which the environment handles for 2000-06-10 .. 2000-06-20."""
import re
from mirsmt.terms import *
from mirsmt import symex
from . import refs as R
from .c07 import any_time

BASE_DAY = 11_123            # 2000-06-15
NS = 10**9
DAY = R.NS_DAY


def install_zone(io, t, before, after):
    """environment: a one-transition zone (t: epoch seconds; offsets in seconds)"""
    ex = io.s.ex
    tn = mul(NS, t)

    def local_ns(iso):
        date, time = iso.f
        y, m, d = (f.t for f in date.f)
        # the environment only knows June 2000 (stated bound); anything else is outside this model
        ex.oblige("fpexact", "synthetic zone queried outside 2000-06", ex._cur_pc, not_(and_(eq(y, 2000), eq(m, 6))))
        return add(mul(DAY, add(BASE_DAY, sub(d, 15))), R.time_ns(*[f.t for f in time.f]))

    def epoch_ns(exx, st, callee, args):
        iso = exx.deref(st, args[2])
        l = local_ns(iso)
        c1, c2 = sub(l, mul(NS, before)), sub(l, mul(NS, after))
        v1, v2 = lt(c1, tn), ge(c2, tn)
        n = add(ite(v1, 1, 0), ite(v2, 1, 0))
        first = ite(v1, c1, c2)
        items = [symex.Agg([symex.Int(io.s.ctx.name(first, "cand"), "i128")]), symex.Agg([symex.Int(io.s.ctx.name(c2, "cand"), "i128")])]
        return symex.Enum(0, {0: [symex.VecVal(items, io.s.ctx.name(n, "ncand"))]}, "Result")

    def offset_ns(exx, st, callee, args):
        e = exx.deref(st, args[2])
        e = e.t if isinstance(e, symex.Int) else e
        aft = ge(e, tn)
        off = symex.Int(ite(aft, after, before), "i64")
        te = symex.Enum(ite(aft, 1, 0), {0: [], 1: [symex.Int(t, "i64")]}, "Option")
        return symex.Enum(0, {0: [symex.Agg([te, off])]}, "Result")

    ex.externals.append((re.compile(r"TimeZoneProvider>::get_named_tz_epoch_nanoseconds"), epoch_ns))
    ex.externals.append((re.compile(r"TimeZoneProvider>::get_named_tz_offset_nanoseconds"), offset_ns))


def expected(l, t, before, after, dis):
    tn = mul(NS, t)
    c1, c2 = sub(l, mul(NS, before)), sub(l, mul(NS, after))
    v1, v2 = lt(c1, tn), ge(c2, tn)
    both, none = and_(v1, v2), and_(not_(v1), not_(v2))
    # (resolves?, instant)
    ok = ite(both, ne(dis, 3), ite(none, ne(dis, 3), True))
    lo, hi = ite(lt(c1, c2), c1, c2), ite(lt(c1, c2), c2, c1)
    val = ite(both, ite(eq(dis, 2), hi, lo),
              ite(none, ite(eq(dis, 1), c2, c1),       # skipped: earlier -> minus the gap (= l - after), else plus
                  ite(v1, c1, c2)))
    return ok, val, both, none


def wall_to_instant(io, max_off):
    t = io.int("t", "i64", BASE_DAY * 86400, BASE_DAY * 86400 + 86399)
    before = io.int("before", "i64", -max_off, max_off)
    after = io.int("after", "i64", -max_off, max_off)
    tm = any_time(io)
    dis = io.cenum("dis", "Disambiguation", [0, 1, 2, 3])
    if io.kind != "sym":
        r = io.call(None, [], native=("syn_zone_wall_to_instant", ("result", "i128"), [t, before, after] + tm + [dis]))
    else:
        install_zone(io, t.t, before.t, after.t)
        date = symex.Agg([symex.Int(2000, "i32"), symex.Int(6, "u8"), symex.Int(15, "u8")])
        iso = symex.Agg([date, symex.Agg(tm)])
        tz = symex.Enum(0, {0: [symex.Opaque("Syn/Zone")]}, "TimeZone")
        r = io.call(("TimeZone", None, "get_epoch_nanoseconds_for"),
                    [io.ref(tz), iso, dis, io.ref(symex.Opaque("provider"))], native=None)
    l = add(mul(DAY, BASE_DAY), R.time_ns(*[v.t for v in tm]))
    ok, val, both, none = expected(l, t.t, before.t, after.t, dis.d)
    io.witness("C13.wall.reach")
    io.witness("C13.wall.gap_longer_than_3h", and_(none, gt(sub(after.t, before.t), 3 * 3600)))
    io.witness("C13.wall.overlap", both)
    got_ok = eq(r.d, 0)
    io.prove("C13.wall.errors_exactly_under_reject_on_ambiguous_or_skipped", and_(implies(got_ok, ok), implies(ok, got_ok))
             if not (is_c(got_ok) and is_c(ok)) else got_ok == ok)
    if 0 in r.v:
        p = r.v[0][0]
        while isinstance(p, symex.Agg):
            p = p.f[0]
        # first in the region of short gaps/overlaps (the common case), then for gaps of any size up to the bound
        short = and_(le(sub(after.t, before.t), 3 * 3600), le(sub(before.t, after.t), 3 * 3600))
        io.prove("C13.wall.instant_per_disambiguation[offset change <= 3 h]", eq(p.t, val), hyp=and_(got_ok, ok, short))
        io.prove("C13.wall.instant_per_disambiguation", eq(p.t, val), hyp=and_(got_ok, ok))
    io.obligations("C13.wall")


def instant_to_wall(io, max_off):
    """GetISODateTimeFor: the wall-clock reading of an instant is the instant shifted by the offset in force"""
    t = io.int("t", "i64", BASE_DAY * 86400, BASE_DAY * 86400 + 86399)
    before = io.int("before", "i64", -max_off, max_off)
    after = io.int("after", "i64", -max_off, max_off)
    e = io.int("e", "i128", (BASE_DAY - 1) * DAY, (BASE_DAY + 2) * DAY - 1)
    if io.kind != "sym":
        r = io.call(None, [], native=("syn_zone_instant_to_wall", ("result", ("agg", [("agg", ["i32", "u8", "u8"]), ("agg", ["u8", "u8", "u8", "u16", "u16", "u16"])])),
                                      [t, before, after, e]))
    else:
        install_zone(io, t.t, before.t, after.t)
        tz = symex.Enum(0, {0: [symex.Opaque("Syn/Zone")]}, "TimeZone")
        inst = symex.Agg([symex.Agg([e])])
        r = io.call(("TimeZone", None, "get_iso_datetime_for"), [io.ref(tz), io.ref(inst), io.ref(symex.Opaque("provider"))], native=None)
    off = ite(ge(e.t, mul(NS, t.t)), after.t, before.t)
    want = add(e.t, mul(NS, off))
    io.witness("C13.read.reach")
    io.witness("C13.read.after_transition", and_(ge(e.t, mul(NS, t.t)), ne(after.t, before.t)))
    io.prove("C13.read.never_fails", eq(r.d, 0))
    if 0 in r.v:
        date, tm = r.v[0][0].f
        Y, M, D = (f.t for f in date.f)
        io.prove("C13.read.time_of_day_is_instant_plus_offset", eq(R.time_ns(*[f.t for f in tm.f]), emod(want, DAY)), hyp=eq(r.d, 0))
        io.prove("C13.read.date_is_instant_plus_offset",
                 and_(eq(Y, 2000), eq(M, 6), eq(add(BASE_DAY, sub(D, 15)), ediv(want, DAY))), hyp=eq(r.d, 0))
    io.obligations("C13.read")


def offset_record(io, which):
    """offset extraction from a parsed string (closure inside from_str_with_provider / RelativeTo::try_from_str_with_provider):
    an arbitrary parser record `+-hh:mm:ss[.f...]` or `Z` -> Ok((Some(exact signed nanoseconds), false)) / Ok((None, exact));
    more than nine fractional digits -> RangeError"""
    sgn = io.int("sign", "i8", -1, 1)
    io.assume(ne(sgn.t, 0))
    sign = symex.Enum(sgn.t, {-1: [], 1: []}, "Sign")
    h = io.int("hh", "u8", 0, 23)
    mi = io.int("mm", "u8", 0, 59)
    sec = io.int("ss", "u8", 0, 59)
    has_f = io.bool("has_fraction")
    fd = io.int("fraction_digits", "u8", 1, 12)
    fr = io.int("fraction_ns", "u32", 0, 999_999_999)
    io.assume(or_(gt(fd.t, 9), *[and_(eq(fd.t, k), eq(emod(fr.t, 10 ** (9 - k)), 0)) for k in range(1, 10)]))
    is_z = io.bool("is_z")
    fn_name = {"zoned": ">::from_str_with_provider::{closure#0}", "relative_to": ">::try_from_str_with_provider::{closure#0}"}[which]
    if io.kind != "sym":
        r = io.call(None, [], native=("syn_zone_offset_of_string_" + which, ("result", ("agg", [("option", "i64"), "bool"])), [sgn, h, mi, sec, has_f, fd, fr, is_z]))
    else:
        ex = io.s.ex
        ex.src.enums["UtcOffsetRecordOrZ"] = [("Offset", 0, 1), ("Z", 1, 0)]     # ixdtf::parsers::records (external crate)

        def to_ns(exx, st, callee, args):
            return symex.Enum(ite(le(fd.t, 9), 1, 0), {0: [], 1: [fr]}, "Option")
        ex.externals.append((re.compile(r"Fraction::to_nanoseconds"), to_ns))
        frac = symex.Enum(ite(has_f.t, 1, 0), {0: [], 1: [symex.Opaque("fraction")]}, "Option")
        rec = symex.Agg([sign, h, mi, sec, frac])
        arg = symex.Enum(ite(is_z.t, 1, 0), {0: [rec], 1: []}, "UtcOffsetRecordOrZ")
        r = io.call_named(fn_name, [symex.UNIT, arg])
    too_many = and_(not_(is_z.t), has_f.t, gt(fd.t, 9))
    mag = add(mul(3600 * NS, h.t), add(mul(60 * NS, mi.t), add(mul(NS, sec.t), ite(has_f.t, fr.t, 0))))
    want = ite(eq(sgn.t, 1), mag, sub(0, mag))
    L = "C13.offset_string.%s" % which
    got_ok = eq(r.d, 0)
    io.witness(L + ".reach")
    io.witness(L + ".seconds_differ_from_minutes", and_(not_(is_z.t), ne(sec.t, mi.t)))
    io.prove(L + ".rejects_more_than_nine_fraction_digits", and_(implies(too_many, not_(got_ok)), implies(not_(too_many), got_ok)))
    if 0 in r.v:
        opt, exact = r.v[0][0].f
        io.prove(L + ".z_is_exact_without_offset", and_(exact.t, eq(opt.d, 0)), hyp=and_(got_ok, is_z.t))
        io.prove(L + ".offset_is_not_exact", and_(not_(exact.t), eq(opt.d, 1)), hyp=and_(got_ok, not_(is_z.t)))
        if 1 in opt.v:
            # first without a fraction (observable end to end through RelativeTo as well), then in general
            io.prove(L + ".nanoseconds_are_the_written_offset[no fraction]", eq(opt.v[1][0].t, want), hyp=and_(got_ok, not_(is_z.t), not_(has_f.t)))
            io.prove(L + ".nanoseconds_are_the_written_offset", eq(opt.v[1][0].t, want), hyp=and_(got_ok, not_(is_z.t)))
    io.obligations(L)


def interpret_offset(io, max_off):
    """InterpretISODateTimeOffset: the explicit offset is used / ignored / preferred / required per the option; Z is exact.
    Call contract of both callers: match_minutes = true; is_exact => no offset value (Z)."""
    round_to_increment_half_expand = lambda x, inc: R.round_to_increment(x, inc, 6)
    t = io.int("t", "i64", BASE_DAY * 86400, BASE_DAY * 86400 + 86399)
    before = io.int("before", "i64", -max_off, max_off)
    after = io.int("after", "i64", -max_off, max_off)
    tm = any_time(io)
    dis = io.cenum("dis", "Disambiguation", [0, 1, 2, 3])
    opt = io.cenum("offset_option", "OffsetDisambiguation", [0, 1, 2, 3])
    kind = io.int("offset_kind", "u8", 0, 2)          # 0 none (wall), 1 explicit offset, 2 Z
    off = io.int("offset_ns", "i64", -86399 * NS - 999_999_999, 86399 * NS + 999_999_999)
    if io.kind != "sym":
        r = io.call(None, [], native=("syn_zone_interpret_offset", ("result", "i128"), [t, before, after] + tm + [dis, opt, kind, off]))
    else:
        install_zone(io, t.t, before.t, after.t)
        date = symex.Agg([symex.Int(2000, "i32"), symex.Int(6, "u8"), symex.Int(15, "u8")])
        tz = symex.Enum(0, {0: [symex.Opaque("Syn/Zone")]}, "TimeZone")
        time = symex.Enum(1, {0: [], 1: [symex.Agg(tm)]}, "Option")
        offv = symex.Enum(ite(eq(kind.t, 1), 1, 0), {0: [], 1: [off]}, "Option")
        r = io.call_named("interpret_isodatetime_offset",
                          [date, time, symex.Bool(eq(kind.t, 2)), offv, io.ref(tz), dis, opt, symex.Bool(True), io.ref(symex.Opaque("provider"))])
    l = add(mul(DAY, BASE_DAY), R.time_ns(*[v.t for v in tm]))
    ok_w, val_w, both, none = expected(l, t.t, before.t, after.t, dis.d)
    tn = mul(NS, t.t)
    c1, c2 = sub(l, mul(NS, before.t)), sub(l, mul(NS, after.t))
    v1, v2 = lt(c1, tn), ge(c2, tn)

    def matches(c):
        o = sub(l, c)
        return or_(eq(o, off.t), eq(round_to_increment_half_expand(o, 60 * NS), off.t))
    m1, m2 = and_(v1, matches(c1)), and_(v2, matches(c2))
    is_z, has = eq(kind.t, 2), eq(kind.t, 1)
    use = and_(has, eq(opt.d, 0))
    match_mode = and_(has, or_(eq(opt.d, 1), eq(opt.d, 3)))
    want_ok = ite(or_(is_z, use), True, ite(match_mode, ite(or_(m1, m2), True, ite(eq(opt.d, 3), False, ok_w)), ok_w))
    want_val = ite(is_z, l, ite(use, sub(l, off.t), ite(and_(match_mode, m1), c1, ite(and_(match_mode, m2), c2, val_w))))
    got_ok = eq(r.d, 0)
    io.witness("C13.offset.reach")
    io.witness("C13.offset.matches_only_to_the_minute", and_(match_mode, m1, ne(sub(l, c1), off.t)))
    io.witness("C13.offset.prefer_falls_back", and_(has, eq(opt.d, 1), not_(or_(m1, m2))))
    io.prove("C13.offset.z_is_the_exact_utc_instant", and_(got_ok, _val_is(r, l)), hyp=is_z)
    io.prove("C13.offset.use_takes_the_written_offset", and_(got_ok, _val_is(r, sub(l, off.t))), hyp=use)
    io.prove("C13.offset.ok_exactly_when_the_option_allows", and_(implies(got_ok, want_ok), implies(want_ok, got_ok)))
    io.prove("C13.offset.instant_per_offset_option", _val_is(r, want_val), hyp=and_(got_ok, want_ok))
    io.obligations("C13.offset")


def _val_is(r, want):
    if 0 not in r.v:
        return False
    p = r.v[0][0]
    while isinstance(p, symex.Agg):
        p = p.f[0]
    return eq(p.t, want)


def fixed_offset_read(io):
    """GetISODateTimeFor in a fixed-offset zone: the wall-clock reading is the instant shifted by the zone's minutes, for
    every instant of 2000-06-14..16 (date arithmetic over the whole range is C05's from_epoch_nanos) and every +-hh:mm"""
    minutes = io.int("offset_minutes", "i16", -1439, 1439)
    e = io.int("e", "i128", (BASE_DAY - 1) * DAY, (BASE_DAY + 2) * DAY - 1)
    if io.kind != "sym":
        r = io.call(None, [], native=("fixed_zone_instant_to_wall", ("result", ("agg", [("agg", ["i32", "u8", "u8"]), ("agg", ["u8", "u8", "u8", "u16", "u16", "u16"])])),
                                      [minutes, e]))
    else:
        tz = symex.Enum(1, {0: [symex.Opaque("name")], 1: [symex.Agg([minutes])]}, "TimeZone")
        inst = symex.Agg([symex.Agg([e])])
        r = io.call(("TimeZone", None, "get_iso_datetime_for"), [io.ref(tz), io.ref(inst), io.ref(symex.Opaque("provider"))], native=None)
    want = add(e.t, mul(60 * NS, minutes.t))
    io.witness("C13.fixed.reach")
    io.witness("C13.fixed.negative_offset_crossing_midnight", and_(lt(minutes.t, 0), lt(emod(e.t, DAY), mul(60 * NS, sub(0, minutes.t)))))
    io.prove("C13.fixed.never_fails", eq(r.d, 0))
    if 0 in r.v:
        date, tm = r.v[0][0].f
        Y, M, D = (f.t for f in date.f)
        io.prove("C13.fixed.time_of_day_is_instant_plus_offset", eq(R.time_ns(*[f.t for f in tm.f]), emod(want, DAY)), hyp=eq(r.d, 0))
        io.prove("C13.fixed.date_is_instant_plus_offset",
                 and_(eq(Y, 2000), eq(M, 6), eq(add(BASE_DAY, sub(D, 15)), ediv(want, DAY))), hyp=eq(r.d, 0))
    io.obligations("C13.fixed")


def jobs(tier, seed):
    return [
        ("wall_to_instant[|offset|<24h]", wall_to_instant, {"max_off": 24 * 3600 - 1}, {"timeout": 600}),
        ("instant_to_wall[|offset|<24h]", instant_to_wall, {"max_off": 24 * 3600 - 1}, {"timeout": 600}),
        ("fixed_offset_read", fixed_offset_read, {}, {"timeout": 300}),
        ("offset_record[zoned]", offset_record, {"which": "zoned"}, {"timeout": 120}),
        ("offset_record[relative_to]", offset_record, {"which": "relative_to"}, {"timeout": 120}),
        ("interpret_offset[|offset|<24h]", interpret_offset, {"max_off": 24 * 3600 - 1}, {"timeout": 900, "unroll": 3, "generics": {"T": "i128"}}),
    ]
