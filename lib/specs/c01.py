"""C01 - ISO dates and the day timeline are a Gregorian bijection over the whole range (Engine M)."""
from mirsmt.terms import *
from mirsmt import symex
from . import refs as R

D_LO, D_HI = -100_000_001, 100_000_001   # one day beyond the instant range on each side (date-time limit)


CYCLE = 146_097          # days in 400 Gregorian years
ALIGN = 135_080          # (d + ALIGN) mod CYCLE == 0  <=>  d is the first day of a 400-year cycle of the shifted kernel


def cyc_day(io, lo, hi):
    """every epoch day d in (a superset of) lo..=hi, written uniquely as d = CYCLE*c + s - ALIGN, 0 <= s < CYCLE"""
    clo, chi = (lo + ALIGN) // CYCLE, (hi + ALIGN) // CYCLE
    c = io.int("c", "i32", clo, chi)
    s = io.int("s", "i32", 0, CYCLE - 1)
    return symex.Int(sub(add(mul(CYCLE, c.t), s.t), ALIGN), "i32")


def cyc_year(io, ylo, yhi, name="y"):
    """every year in (a superset of) ylo..=yhi, written uniquely as y = 400*c + r, 0 <= r < 400"""
    c = io.int(name + "c", "i32", ylo // 400, yhi // 400)
    r = io.int(name + "r", "i32", 0, 399)
    return symex.Int(add(mul(400, c.t), r.t), "i32")


def ymd_of_day(io, lo, hi, P="C01"):
    """for all epoch days d: ymd(d) is a valid date and the real day count maps it back to d"""
    d = cyc_day(io, lo, hi)
    r = io.call("ymd_from_epoch_days", [d], native=("ymd_from_epoch_milliseconds", ("agg", ["i32", "u8", "u8"]),
                                                     [symex.Int(mul(d.t, 86_400_000), "i64")]))
    y, m, dd = (f.t for f in r.f)
    io.witness(P + ".ymd.reach")
    io.prove(P + ".ymd.valid_date", R.valid_date(y, m, dd))
    io.prove(P + ".ymd.inverse_of_reference_day_count", eq(R.epoch_days(y, m, dd), d.t), hyp=R.valid_date(y, m, dd))
    e = io.call("neri_schneider::epoch_days_from_gregorian_date", list(r.f), native=("epoch_days_from_gregorian_date", "i32"))
    io.prove(P + ".ymd.round_trip_through_day_count", eq(e.t, d.t))
    io.obligations(P + ".ymd")


def day_of_ymd(io, ylo, yhi, P="C01"):
    """for all valid dates: epoch_days_from_gregorian_date = reference day count"""
    y = cyc_year(io, ylo, yhi)
    m = io.int("m", "u8", 1, 12)
    d = io.int("day", "u8", 1, 31)
    io.assume(le(d.t, R.dim(y.t, m.t)))
    e = io.call("neri_schneider::epoch_days_from_gregorian_date", [y, m, d],
                native=("epoch_days_from_gregorian_date", "i32"))
    io.witness(P + ".days.reach")
    io.prove(P + ".days.equals_reference", eq(e.t, R.epoch_days(y.t, m.t, d.t)))
    io.obligations(P + ".days")


def year_facts(io, ylo, yhi):
    y = cyc_year(io, ylo, yhi)
    m = io.int("m", "u8", 1, 12)
    diy = io.call("utils::mathematical_days_in_year", [y], native=("mathematical_days_in_year", "i32"))
    io.prove("C01.year.days_in_year", eq(diy.t, ite(R.leap(y.t), 366, 365)))
    e = io.call("utils::epoch_days_for_year", [y], native=("epoch_days_for_year", "i32"))
    io.prove("C01.year.epoch_days_for_year", eq(e.t, R.epoch_days(y.t, 1, 1)))
    dm = io.call("utils::iso_days_in_month", [y, m], native=("iso_days_in_month", "u8"))
    io.witness("C01.year.reach")
    io.prove("C01.year.days_in_month", eq(dm.t, R.dim(y.t, m.t)))
    io.obligations("C01.year")


def balance(io, ylo, yhi, dlo, dhi, P="C01", tlo=D_LO, thi=D_HI):
    """IsoDate::balance / iso_date_to_epoch_days: first of month y-m plus (day-1) days"""
    y = cyc_year(io, ylo, yhi)
    m = io.int("m", "i32", 1, 12)
    day = io.int("day", "i32", dlo, dhi)
    target = add(R.epoch_days(y.t, m.t, 1), sub(day.t, 1))
    io.assume(and_(le(tlo, target), le(target, thi)))
    e = io.call("iso::iso_date_to_epoch_days", [y, m, day], native=("iso_date_to_epoch_days", "i32"))
    io.prove(P + ".balance.epoch_days", eq(e.t, target))
    b = io.call(("IsoDate", None, "balance"), [y, m, day], native=("iso_date_balance", ("agg", ["i32", "u8", "u8"])))
    # balance must be exactly ymd(epoch day computed above); ymd itself is covered for every day by ymd_of_day
    r = io.call("ymd_from_epoch_days", [e], native=("ymd_from_epoch_milliseconds", ("agg", ["i32", "u8", "u8"]),
                                                     [symex.Int(mul(e.t, 86_400_000), "i64")]))
    io.witness(P + ".balance.reach")
    io.prove(P + ".balance.is_ymd_of_target_day",
             and_(*[eq(p.t, q.t) for p, q in zip(b.f, r.f)]))
    io.obligations(P + ".balance")


def order(io, ylo, yhi):
    """derived Ord on IsoDate agrees with the timeline order (two valid dates in a year window each)"""
    vals = []
    for tag in ("a", "b"):
        y = cyc_year(io, ylo, yhi, "y" + tag)
        m = io.int("m" + tag, "u8", 1, 12)
        d = io.int("d" + tag, "u8", 1, 31)
        io.assume(le(d.t, R.dim(y.t, m.t)))
        vals.append((y, m, d))
    a = symex.Agg(list(vals[0]))
    b = symex.Agg(list(vals[1]))
    c = io.call(("IsoDate", "Ord", "cmp"), [io.ref(a), io.ref(b)], native=None)
    ea = R.epoch_days(*(v.t for v in vals[0]))
    eb = R.epoch_days(*(v.t for v in vals[1]))
    io.witness("C01.order.reach")
    io.prove("C01.order.cmp_is_timeline_order", eq(c.d, ite(lt(ea, eb), -1, ite(eq(ea, eb), 0, 1))))


def jobs(tier, seed):
    out = [
        ("ymd_of_day[all days]", ymd_of_day, {"lo": D_LO, "hi": D_HI}),
        ("day_of_ymd[all years]", day_of_ymd, {"ylo": R.YEAR_MIN, "yhi": R.YEAR_MAX}),
        ("year_facts[all years]", year_facts, {"ylo": R.YEAR_MIN, "yhi": R.YEAR_MAX}),
        ("balance[all years]", balance, {"ylo": R.YEAR_MIN, "yhi": R.YEAR_MAX, "dlo": -200_000_010, "dhi": 200_000_010}),
        ("order[all years]", order, {"ylo": R.YEAR_MIN, "yhi": R.YEAR_MAX}),
    ]
    return out


def _dv(d):
    return {"c": (d + ALIGN) // CYCLE, "s": (d + ALIGN) % CYCLE}


def _yv(y, name="y"):
    return {name + "c": y // 400, name + "r": y % 400}


# inputs of the repository's own unit tests (neri_schneider::tests, iso::tests) plus edge values
VALIDATION = [
    (ymd_of_day, {"lo": D_LO, "hi": D_HI}, [_dv(v) for v in (0, -1, 1, 100_000_001, -100_000_001, 11_248_737, -12_687_428, 19_000, 59, 60, -719_468)]),
    (day_of_ymd, {"ylo": R.YEAR_MIN, "yhi": R.YEAR_MAX},
     [dict(_yv(y), m=m, day=d) for (y, m, d) in ((1970, 1, 1), (275760, 9, 14), (-271821, 4, 19), (32767, 12, 31), (-32767, 1, 1), (2000, 2, 29), (1900, 3, 1), (0, 1, 1), (-1, 12, 31))]),
    (year_facts, {"ylo": R.YEAR_MIN, "yhi": R.YEAR_MAX}, [dict(_yv(y), m=m) for (y, m) in ((2000, 2), (1900, 2), (2024, 2), (2023, 2), (-4, 2), (275760, 9), (-271821, 4), (1970, 12))]),
    (balance, {"ylo": R.YEAR_MIN, "yhi": R.YEAR_MAX, "dlo": -200_000_010, "dhi": 200_000_010},
     [dict(_yv(y), m=m, day=d) for (y, m, d) in ((1970, 1, 1), (1969, 12, 31), (-271821, 4, 20), (275760, 9, 13), (2000, 12, 400), (2001, 1, -400), (2020, 3, 0))]),
]
