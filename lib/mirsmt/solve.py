"""Solver back ends: cvc5 (primary) and z3 (cross-check) over SMT-LIB text."""
import subprocess, re, time, os, tempfile

CVC5 = "/usr/bin/cvc5"
Z3 = "/usr/bin/z3"
Z3NEW = "/usr/local/bin/z3-new"


def _run(cmd, script, timeout):
    t0 = time.time()
    try:
        p = subprocess.run(cmd, input=script, capture_output=True, text=True, timeout=timeout + 5)
        out = p.stdout + p.stderr
    except subprocess.TimeoutExpired:
        return "timeout", "", time.time() - t0
    dt = time.time() - t0
    if "(error" in out:
        return "error", out, dt
    first = out.strip().split("\n")[0].strip() if out.strip() else ""
    if first in ("sat", "unsat", "unknown"):
        return first, out, dt
    if "timeout" in out or "interrupted" in out:
        return "timeout", out, dt
    return "error", out, dt


def parse_model(out):
    """(define-fun name () Int value) -> {name: int|bool}"""
    model = {}
    for m in re.finditer(r"\(define-fun\s+(\S+)\s+\(\)\s+(Int|Bool)\s+((?:\(-\s+\d+\))|-?\d+|true|false)\s*\)", out):
        name, sort, val = m.group(1), m.group(2), m.group(3)
        if sort == "Bool":
            model[name] = (val == "true")
        else:
            mm = re.match(r"\(-\s+(\d+)\)", val)
            model[name] = -int(mm.group(1)) if mm else int(val)
    return model


def check(script_body, timeout=60, solver="cvc5", want_model=True, logic="QF_LIA"):
    """script_body: declarations + assertions (no check-sat). -> (verdict, model, seconds, raw)"""
    head = "(set-option :produce-models true)\n(set-logic %s)\n" % logic
    tail = "\n(check-sat)\n" + ("(get-model)\n" if want_model else "")
    script = head + script_body + tail
    if solver == "cvc5":
        cmd = [CVC5, "--lang", "smt2", "--tlimit=%d" % (timeout * 1000)]
    elif solver == "z3":
        cmd = [Z3, "-smt2", "-in", "-T:%d" % timeout]
    else:
        cmd = [Z3NEW, "-smt2", "-in", "-T:%d" % timeout]
    verdict, out, dt = _run(cmd, script, timeout)
    if verdict == "sat" and want_model:
        return verdict, parse_model(out), dt, out
    if verdict == "error" and "unsat" not in out.split("\n")[0]:
        # get-model after unsat yields an (error ...) line: that one is expected
        first = out.strip().split("\n")[0].strip() if out.strip() else ""
        if first == "unsat":
            return "unsat", None, dt, out
    if verdict == "error":
        first = out.strip().split("\n")[0].strip() if out.strip() else ""
        if first in ("unsat", "unknown"):
            # only the trailing get-model may legitimately error
            errs = [l for l in out.split("\n") if "(error" in l]
            if len(errs) == 1 and ("model" in errs[0].lower() or "sat" in errs[0].lower()):
                return first, None, dt, out
    return verdict, None, dt, out
