"""A verification session: symbolic inputs, calls into real MIR bodies, proof obligations, solver queries."""
import time
from . import mirparse, rsrc, symex, solve, dump
from .terms import *
from .terms import T, Ctx

_CACHE = {}


def load(debug_assertions=True):
    path, secs, th = dump.get_dump(debug_assertions)
    key = path
    if key not in _CACHE:
        fns, consts = mirparse.parse_dump(open(path).read())
        _CACHE[key] = (fns, consts, rsrc.Sources(dump.ROOT), path, secs, th)
    return _CACHE[key]


class Query:
    def __init__(self, name, verdict, seconds, model=None, detail="", kind="goal", cross=None):
        self.name, self.verdict, self.seconds, self.model, self.detail, self.kind = name, verdict, seconds, model, detail, kind
        self.cross = cross


class Session:
    def __init__(self, name, mode="debug", unroll=1, timeout=120, cross_check=True, max_paths=4000, generics=None):
        fns, consts, src, path, secs, th = load(True)
        self.name = name
        self.dump_path, self.dump_secs, self.tree_hash = path, secs, th
        self.ctx = Ctx()
        self.ex = symex.Executor(fns, consts, src, self.ctx, mode=mode, unroll=unroll, max_paths=max_paths)
        self.ex.generics = dict(generics or {})
        self.state = symex.State()
        self.assumptions = []
        self.inputs = {}      # user name -> smt name
        self.queries = []
        self.timeout = timeout
        self.cross_check = cross_check
        self.mode = mode

    # ---- inputs
    def int(self, name, ty, lo=None, hi=None):
        tlo, thi = ty_range(ty)
        lo = tlo if lo is None else max(lo, tlo)
        hi = thi if hi is None else min(hi, thi)
        v = self.ctx.var(name, "Int", lo, hi)
        self.inputs[name] = v.s
        self.assumptions.append(and_(le(lo, v, raw=True), le(v, hi, raw=True)))
        return symex.Int(v, ty)

    def bool(self, name):
        v = self.ctx.var(name, "Bool")
        self.inputs[name] = v.s
        return symex.Bool(v)

    def cenum(self, name, enum_name, discrs):
        """field-less enum input restricted to the given discriminant values"""
        v = self.ctx.var(name)
        self.inputs[name] = v.s
        self.assumptions.append(or_(*[eq(v, d) for d in discrs]))
        return symex.Enum(v, {d: [] for d in discrs}, enum_name)

    def assume(self, c):
        self.assumptions.append(c)

    # ---- calls
    def call(self, target, args):
        """target: ('Type', trait|None, 'method') or 'path::free_fn'"""
        if isinstance(target, tuple):
            f = self.ex.fn_by_key(*target)
        else:
            f = self.ex.fn_free(target)
        return self.ex._exec_fn(self.state, f, list(args), 0)

    def ref(self, value):
        """pass `value` by reference"""
        self.ex.uid += 1
        uid = self.ex.uid
        self.state.frames[uid] = {"_v": value}
        return symex.Ref(uid, "_v")

    # ---- solving
    def _script(self, extra):
        asserts = [a for a in self.assumptions + self.state.pc + extra]
        body = self.ctx.script() + "\n" + "\n".join("(assert %s)" % lit(a) for a in asserts if not (is_c(a) and a))
        if any(is_c(a) and not a for a in asserts):
            body += "\n(assert false)"
        return body

    def _decide(self, qname, extra, kind):
        body = self._script(extra)
        v, model, dt, raw = solve.check(body, self.timeout, "cvc5")
        cross = None
        if self.cross_check and v in ("sat", "unsat") and dt < 5.0:
            v2, m2, dt2, raw2 = solve.check(body, min(self.timeout, 10), "z3new")
            cross = v2
            if v2 in ("sat", "unsat") and v2 != v:
                q = Query(qname, "disagree", dt + dt2, None, "cvc5=%s z3=%s" % (v, v2), kind, cross)
                self.queries.append(q)
                return q
        if v in ("timeout", "unknown", "error"):
            # second opinion from z3 (new) before giving up
            v2, m2, dt2, raw2 = solve.check(body, self.timeout, "z3new")
            if v2 in ("sat", "unsat"):
                v, model, dt, cross = v2, m2, dt + dt2, "z3new-only"
            else:
                q = Query(qname, "inconclusive", dt + dt2, None, "cvc5=%s z3new=%s %s" % (v, v2, raw[:200].replace("\n", " ")), kind, cross)
                self.queries.append(q)
                return q
        um = None
        if v == "sat" and model is not None:
            um = {k: model.get(s) for k, s in self.inputs.items()}
        q = Query(qname, "holds" if v == "unsat" else "counterexample", dt, um, "", kind, cross)
        self.queries.append(q)
        return q

    def prove(self, qname, goal, hyp=True):
        """goal must hold whenever assumptions, the calls' return conditions and hyp hold"""
        if is_c(goal) and goal:
            q = Query(qname, "holds", 0.0, None, "folded to true", "goal")
            self.queries.append(q)
            return q
        return self._decide(qname, [hyp, not_(goal)], "goal")

    def reachable(self, qname, cond=True):
        """vacuity witness: assumptions + path condition (+cond) are satisfiable"""
        body = self._script([cond])
        v, model, dt, raw = solve.check(body, self.timeout, "cvc5")
        q = Query(qname, "reachable" if v == "sat" else ("VACUOUS" if v == "unsat" else "inconclusive"), dt, None, "", "witness")
        self.queries.append(q)
        return q

    def check_obligations(self, prefix, kinds=("panic", "unwind", "exhaustive", "fpexact")):
        """every recorded panic / unwinding obligation must be unreachable under the assumptions"""
        out = []
        for i, (kind, label, cond) in enumerate(self.ex.obligations):
            if kind not in kinds:
                continue
            body = self.ctx.script() + "\n" + "\n".join(
                "(assert %s)" % lit(a) for a in self.assumptions + [cond] if not (is_c(a) and a))
            v, model, dt, raw = solve.check(body, self.timeout, "cvc5")
            if v == "unsat":
                q = Query("%s.%s#%d" % (prefix, kind, i), "holds", dt, None, label, kind)
            elif v == "sat":
                um = {k: model.get(s) for k, s in self.inputs.items()} if model else None
                q = Query("%s.%s#%d" % (prefix, kind, i), "counterexample", dt, um, label, kind)
            else:
                q = Query("%s.%s#%d" % (prefix, kind, i), "inconclusive", dt, None, label + " :: " + v, kind)
            self.queries.append(q)
            out.append(q)
        return out
