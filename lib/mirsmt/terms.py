"""SMT-LIB term construction over Int/Bool with constant folding.

Concrete values are Python int / bool, symbolic ones are `T(text, sort)`.  With concrete inputs every
operation folds, so the same spec code evaluates natively-produced outputs (replay) and symbolic ones.
Machine integers are mathematical Ints plus explicit `wrap` terms; nothing wraps implicitly.
"""


class T:
    """symbolic term; Int terms carry a conservative interval [lo, hi] (None = unbounded) that is
    used only to drop provably redundant wrap/range terms (the raw obligation still goes to the solver)"""
    __slots__ = ("s", "sort", "lo", "hi", "lin")

    def __init__(self, s, sort, lo=None, hi=None, lin=None):
        self.s = s
        self.sort = sort
        self.lo = lo
        self.hi = hi
        # linear form: ({atom text: (coef, atom term)}, constant) with the term == sum coef*atom + constant;
        # None means the term is its own atom.  Used to pull exact multiples out of div/mod by a constant.
        self.lin = lin

    def __repr__(self):
        return "T(%s)" % self.s


class Ctx:
    """Accumulates declarations and definitions (a DAG via define-fun) for one encoding session."""

    def __init__(self):
        self.lines = []
        self.n = 0
        self.inputs = []   # [(name, sort)]

    def var(self, name, sort="Int", lo=None, hi=None):
        self.n += 1
        nm = "%s!%d" % (name, self.n)
        self.lines.append("(declare-const %s %s)" % (nm, sort))
        self.inputs.append((nm, sort))
        return T(nm, sort, lo, hi)

    def name(self, t, hint="t"):
        """bind a large term to a name so later terms stay small"""
        if not isinstance(t, T) or len(t.s) < 48:
            return t
        self.n += 1
        nm = "%s!%d" % (hint, self.n)
        self.lines.append("(define-fun %s () %s %s)" % (nm, t.sort, t.s))
        return T(nm, t.sort, t.lo, t.hi, t.lin if t.lin is not None else ({t.s: (1, t)}, 0))

    def script(self):
        return "\n".join(self.lines)


def lit(v):
    if isinstance(v, bool):
        return "true" if v else "false"
    if isinstance(v, int):
        return str(v) if v >= 0 else "(- %d)" % (-v)
    return v.s


def is_c(*vs):
    return all(not isinstance(v, T) for v in vs)


def _ediv(a, b):
    """Euclidean quotient (SMT-LIB `div`, Rust `div_euclid`): remainder in [0, |b|)"""
    q = a // abs(b)
    if b < 0:
        q = -q
    r = a - q * b
    assert 0 <= r < abs(b)
    return q


def iv(a):
    if isinstance(a, T):
        return a.lo, a.hi
    if isinstance(a, bool):
        return None, None
    return a, a


def _pl(x, y):
    return None if x is None or y is None else x + y


def lin_of(a):
    if not isinstance(a, T):
        return {}, a
    if a.lin is not None:
        return a.lin
    return {a.s: (1, a)}, 0


def _lin_add(la, lb, sign=1):
    d = dict(la[0])
    for k, (c, t) in lb[0].items():
        c2 = d.get(k, (0, t))[0] + sign * c
        if c2 == 0:
            d.pop(k, None)
        else:
            d[k] = (c2, t)
    return d, la[1] + sign * lb[1]


def _lin_scale(la, k):
    if k == 0:
        return {}, 0
    return {a: (c * k, t) for a, (c, t) in la[0].items()}, la[1] * k


def from_lin(l):
    """rebuild a term from a linear form (plain sums; atoms keep their own intervals)"""
    acc = l[1]
    for k in sorted(l[0]):
        c, t = l[0][k]
        acc = _raw_add(acc, _raw_mul(c, t))
    return acc


def _raw_mul(x, y):
    """x constant, y term"""
    if x == 1:
        return y
    lo, hi = iv(y)
    c = [None if v is None else v * x for v in (lo, hi)]
    if x < 0:
        c = [c[1], c[0]]
    return T("(* %s %s)" % (lit(x), lit(y)), "Int", c[0], c[1], _lin_scale(lin_of(y), x))


def _raw_add(a, b):
    if is_c(a, b):
        return a + b
    if is_c(a) and a == 0:
        return b
    if is_c(b) and b == 0:
        return a
    (al, ah), (bl, bh) = iv(a), iv(b)
    return T("(+ %s %s)" % (lit(a), lit(b)), "Int", _pl(al, bl), _pl(ah, bh), _lin_add(lin_of(a), lin_of(b)))


def add(a, b):
    return _raw_add(a, b)


def sub(a, b):
    if is_c(a, b):
        return a - b
    if is_c(b) and b == 0:
        return a
    l = _lin_add(lin_of(a), lin_of(b), -1)
    if not l[0]:
        return l[1]          # everything cancelled
    (al, ah), (bl, bh) = iv(a), iv(b)
    lo = None if al is None or bh is None else al - bh
    hi = None if ah is None or bl is None else ah - bl
    return T("(- %s %s)" % (lit(a), lit(b)), "Int", lo, hi, l)


def neg(a):
    if is_c(a):
        return -a
    lo, hi = iv(a)
    return T("(- %s)" % lit(a), "Int", None if hi is None else -hi, None if lo is None else -lo, _lin_scale(lin_of(a), -1))


def mul(a, b):
    if is_c(a, b):
        return a * b
    for x, y in ((a, b), (b, a)):
        if is_c(x):
            if x == 0:
                return 0
            return _raw_mul(x, y)
    # symbolic * symbolic: linear case split when one factor ranges over at most 5 values (signs, small counts)
    for x, y in ((a, b), (b, a)):
        lo, hi = iv(x)
        if lo is not None and hi is not None and hi - lo <= 4:
            acc = _raw_mul(hi, y) if hi != 0 else 0
            for k in range(hi - 1, lo - 1, -1):
                acc = ite(eq(x, k), (_raw_mul(k, y) if k != 0 else 0), acc)
            return acc
    raise NonLinear("symbolic * symbolic")


class NonLinear(Exception):
    pass


def _unused_mul(a, b):
    return T("(* %s %s)" % (lit(a), lit(b)), "Int")


def _split_lin(a, b):
    """a == b*A + B with A collecting the atoms whose coefficient is a multiple of b (b > 0 constant)"""
    l = lin_of(a)
    if not isinstance(a, T) or (len(l[0]) <= 1 and l[1] == 0 and all(c % b for c, _ in l[0].values())):
        return None
    big = {k: (c // b, t) for k, (c, t) in l[0].items() if c % b == 0}
    if not big and abs(l[1]) < b:
        return None
    rest = {k: v for k, v in l[0].items() if v[0] % b != 0}
    kq, kr = l[1] // b, l[1] % b      # python floor division: kr in [0, b)
    if not big and kq == 0:
        return None
    return from_lin((big, kq)), from_lin((rest, kr))


def ediv(a, b):
    """Euclidean division (SMT-LIB div == Rust div_euclid); b != 0 is the caller's obligation"""
    if is_c(a, b):
        return _ediv(a, b)
    if is_c(b) and b == 1:
        return a
    if is_c(b) and b > 1:
        sp = _split_lin(a, b)
        if sp is not None:
            A, B = sp
            return _raw_add(A, _ediv_atom(B, b))    # floor((b*A + B)/b) == A + floor(B/b)
    return _ediv_atom(a, b)


def _ediv_atom(a, b):
    if is_c(a, b):
        return _ediv(a, b)
    lo = hi = None
    if is_c(b) and b > 0:
        al, ah = iv(a)
        lo = None if al is None else _ediv(al, b)
        hi = None if ah is None else _ediv(ah, b)
        if lo is not None and lo == hi:
            return lo
    return T("(div %s %s)" % (lit(a), lit(b)), "Int", lo, hi)


def emod(a, b):
    if is_c(a, b):
        return a - _ediv(a, b) * b
    if is_c(b) and b in (1, -1):
        return 0
    if is_c(b) and b > 1:
        sp = _split_lin(a, b)
        if sp is not None:
            a = sp[1]
            if is_c(a):
                return a - _ediv(a, b) * b
    if is_c(b) and b != 0:
        al, ah = iv(a)
        if al is not None and ah is not None and 0 <= al and ah < abs(b):
            return a
        return T("(mod %s %s)" % (lit(a), lit(b)), "Int", 0, abs(b) - 1)
    return T("(mod %s %s)" % (lit(a), lit(b)), "Int", 0, None)


def ite(c, a, b):
    if is_c(c):
        return a if c else b
    if is_c(a, b) and a == b:
        return a
    if isinstance(a, T) and isinstance(b, T) and a.s == b.s:
        return a
    sort = "Bool" if (isinstance(a, bool) or (isinstance(a, T) and a.sort == "Bool")) else "Int"
    if sort == "Bool":
        if is_c(a, b):
            return c if (a and not b) else not_(c)
    if sort == "Int":
        (al, ah), (bl, bh) = iv(a), iv(b)
        lo = None if al is None or bl is None else min(al, bl)
        hi = None if ah is None or bh is None else max(ah, bh)
        return T("(ite %s %s %s)" % (lit(c), lit(a), lit(b)), sort, lo, hi)
    return T("(ite %s %s %s)" % (lit(c), lit(a), lit(b)), sort)


def tdiv(a, b):
    """Rust `/` on signed ints: truncation toward zero"""
    if is_c(a, b):
        q = abs(a) // abs(b)
        return q if (a >= 0) == (b >= 0) else -q
    if is_c(b):
        if b > 0:
            return ite(ge(a, 0), ediv(a, b), neg(ediv(neg(a), b)))
        return ite(ge(a, 0), neg(ediv(a, -b)), ediv(neg(a), -b))
    return ite(ge(a, 0),
               ite(gt(b, 0), ediv(a, b), neg(ediv(a, neg(b)))),
               ite(gt(b, 0), neg(ediv(neg(a), b)), ediv(neg(a), neg(b))))


def trem(a, b):
    """Rust `%`: remainder with the sign of the dividend"""
    if is_c(a, b):
        return a - tdiv(a, b) * b
    return sub(a, mul(tdiv(a, b), b))


def _cmp(op, pyop, a, b, raw=False):
    if is_c(a, b):
        return pyop(a, b)
    if not raw:
        (al, ah), (bl, bh) = iv(a), iv(b)
        # decided by intervals?
        if op in ("<", "<="):
            if ah is not None and bl is not None and pyop(ah, bl):
                return True
            if al is not None and bh is not None and not pyop(al, bh):
                return False
        else:
            if al is not None and bh is not None and pyop(al, bh):
                return True
            if ah is not None and bl is not None and not pyop(ah, bl):
                return False
    return T("(%s %s %s)" % (op, lit(a), lit(b)), "Bool")


def lt(a, b, raw=False): return _cmp("<", lambda x, y: x < y, a, b, raw)
def le(a, b, raw=False): return _cmp("<=", lambda x, y: x <= y, a, b, raw)
def gt(a, b, raw=False): return _cmp(">", lambda x, y: x > y, a, b, raw)
def ge(a, b, raw=False): return _cmp(">=", lambda x, y: x >= y, a, b, raw)


def eq(a, b):
    if is_c(a, b):
        return a == b
    if isinstance(a, T) and isinstance(b, T) and a.s == b.s:
        return True
    if not isinstance(a, bool) and not isinstance(b, bool):
        (al, ah), (bl, bh) = iv(a), iv(b)
        if (ah is not None and bl is not None and ah < bl) or (al is not None and bh is not None and al > bh):
            return False
    return T("(= %s %s)" % (lit(a), lit(b)), "Bool")


def ne(a, b):
    return not_(eq(a, b))


def not_(a):
    if is_c(a):
        return not a
    if a.s.startswith("(not ") and a.s.endswith(")"):
        return T(a.s[5:-1], "Bool")
    return T("(not %s)" % a.s, "Bool")


def and_(*xs):
    out = []
    for x in xs:
        if is_c(x):
            if not x:
                return False
            continue
        out.append(x)
    if not out:
        return True
    if len(out) == 1:
        return out[0]
    return T("(and %s)" % " ".join(x.s for x in out), "Bool")


def or_(*xs):
    out = []
    for x in xs:
        if is_c(x):
            if x:
                return True
            continue
        out.append(x)
    if not out:
        return False
    if len(out) == 1:
        return out[0]
    return T("(or %s)" % " ".join(x.s for x in out), "Bool")


def implies(a, b):
    return or_(not_(a), b)


# ---------------------------------------------------------------- machine integer types

INT_TYPES = {}
for _n in (8, 16, 32, 64, 128):
    INT_TYPES["i%d" % _n] = (True, _n)
    INT_TYPES["u%d" % _n] = (False, _n)
INT_TYPES["isize"] = (True, 64)
INT_TYPES["usize"] = (False, 64)


def ty_range(ty):
    signed, n = INT_TYPES[ty]
    if signed:
        return -(1 << (n - 1)), (1 << (n - 1)) - 1
    return 0, (1 << n) - 1


def in_range(x, ty, raw=False):
    lo, hi = ty_range(ty)
    return and_(le(lo, x, raw), le(x, hi, raw))


def wrap(x, ty):
    signed, n = INT_TYPES[ty]
    m = 1 << n
    if is_c(x):
        r = x % m
        if signed and r >= (1 << (n - 1)):
            r -= m
        return r
    if signed:
        h = 1 << (n - 1)
        w = sub(emod(add(x, h), m), h)
    else:
        w = emod(x, m)
    return ite(in_range(x, ty), x, w)


def clip(x, ty):
    """same term, interval intersected with the range of `ty` (caller guarantees in-range on this path)"""
    if is_c(x):
        return x
    lo, hi = ty_range(ty)
    nlo = lo if x.lo is None else max(x.lo, lo)
    nhi = hi if x.hi is None else min(x.hi, hi)
    return T(x.s, x.sort, nlo, nhi, x.lin)
