"""Light-weight reader of /repo's Rust sources: struct field order, enum variants/discriminants and
impl headers (by file:line, to resolve MIR names of the form `mod::<impl at src/x.rs:L:C: L:C>::f`)."""
import os, re, glob

BUILTIN_ENUMS = {
    "Option": [("None", 0, 0), ("Some", 1, 1)],
    "Result": [("Ok", 0, 1), ("Err", 1, 1)],
    "Ordering": [("Less", -1, 0), ("Equal", 0, 0), ("Greater", 1, 0)],
    "ControlFlow": [("Continue", 0, 1), ("Break", 1, 1)],
}


def strip_comments(text):
    out = []
    i, n = 0, len(text)
    while i < n:
        if text.startswith("//", i):
            j = text.find("\n", i)
            j = n if j < 0 else j
            i = j
        elif text.startswith("/*", i):
            j = text.find("*/", i)
            j = n if j < 0 else j + 2
            out.append("\n" * text.count("\n", i, j))
            i = j
        elif text[i] == '"':
            j = i + 1
            while j < n and text[j] != '"':
                j += 2 if text[j] == "\\" else 1
            out.append('""' + "\n" * text.count("\n", i, j))
            i = j + 1
        else:
            out.append(text[i])
            i += 1
    return "".join(out)


def _match_brace(text, i):
    d = 0
    while i < len(text):
        if text[i] == "{":
            d += 1
        elif text[i] == "}":
            d -= 1
            if d == 0:
                return i
        i += 1
    return len(text) - 1


def _split_top(s):
    out, d, cur = [], 0, []
    for c in s:
        if c in "<([{":
            d += 1
        elif c in ">)]}":
            d -= 1
        if c == "," and d == 0:
            out.append("".join(cur).strip()); cur = []
        else:
            cur.append(c)
    t = "".join(cur).strip()
    if t:
        out.append(t)
    return out


class Sources:
    def __init__(self, root="/repo"):
        self.root = root
        self.structs = {}    # name -> [field names] (named) or int (tuple arity)
        self.enums = dict(BUILTIN_ENUMS)   # name -> [(variant, discr, nfields)]
        self.impls = {}      # (relpath, line) -> (trait or None, self_type)
        self.files = {}
        for p in glob.glob(os.path.join(root, "src", "**", "*.rs"), recursive=True):
            rel = os.path.relpath(p, root)
            raw = open(p, errors="replace").read()
            self.files[rel] = raw
            self._scan(rel, strip_comments(raw))

    def _scan(self, rel, text):
        for m in re.finditer(r"\b(?:pub(?:\([^)]*\))? )?struct (\w+)(<[^>{(;]*>)?\s*(\{|\(|;)", text):
            name, kind = m.group(1), m.group(3)
            if kind == "{":
                j = _match_brace(text, m.end() - 1)
                body = text[m.end():j]
                fields = []
                for f in _split_top(body):
                    f = re.sub(r"#\[[^\]]*\]", "", f).strip()
                    mm = re.match(r"^(?:pub(?:\([^)]*\))? )?(\w+)\s*:", f)
                    if mm:
                        fields.append(mm.group(1))
                self.structs[name] = fields
            elif kind == "(":
                d, j = 0, m.end() - 1
                while j < len(text):
                    if text[j] == "(":
                        d += 1
                    elif text[j] == ")":
                        d -= 1
                        if d == 0:
                            break
                    j += 1
                self.structs[name] = len(_split_top(text[m.end():j]))
            else:
                self.structs[name] = 0
        for m in re.finditer(r"\b(?:pub(?:\([^)]*\))? )?enum (\w+)(<[^>{]*>)?\s*\{", text):
            name = m.group(1)
            j = _match_brace(text, m.end() - 1)
            body = text[m.end():j]
            variants = []
            nxt = 0
            for v in _split_top(body):
                v = re.sub(r"#\[[^\]]*\]", "", v).strip()
                if not v:
                    continue
                mm = re.match(r"^(\w+)\s*(\((.*)\)|\{(.*)\})?\s*(?:=\s*(-?\d+))?$", v, re.S)
                if not mm:
                    continue
                if mm.group(5) is not None:
                    nxt = int(mm.group(5))
                nf = 0
                if mm.group(3) is not None:
                    nf = len(_split_top(mm.group(3)))
                elif mm.group(4) is not None:
                    nf = len(_split_top(mm.group(4)))
                variants.append((mm.group(1), nxt, nf))
                nxt += 1
            self.enums[name] = variants
        for m in re.finditer(r"^[ \t]*(?:unsafe )?impl\b(.*?)\{", text, re.M | re.S):
            hdr = " ".join(m.group(1).split())
            line = text.count("\n", 0, m.start()) + 1
            # strip leading generics
            if hdr.startswith("<"):
                d = 0
                for k, c in enumerate(hdr):
                    if c == "<":
                        d += 1
                    elif c == ">":
                        d -= 1
                        if d == 0:
                            hdr = hdr[k + 1:].strip()
                            break
            hdr = re.sub(r"\bwhere\b.*$", "", hdr).strip()
            if " for " in hdr:
                tr, ty = hdr.split(" for ", 1)
            else:
                tr, ty = None, hdr
            self.impls[(rel, line)] = (tr.strip() if tr else None, ty.strip())

    def impl_at(self, rel, line):
        """impl header whose `impl` keyword is on `line` of file `rel` (derive impls: the derive attribute line)."""
        return self.impls.get((rel, line))

    def line(self, rel, line):
        try:
            return self.files[rel].split("\n")[line - 1]
        except Exception:
            return ""

    def item_after(self, rel, line):
        """for derive(...) impl spans: name of the struct/enum declared after `line`"""
        lines = self.files.get(rel, "").split("\n")
        for l in lines[line - 1: line + 12]:
            m = re.search(r"\b(?:struct|enum) (\w+)", l)
            if m:
                return m.group(1)
        return None
