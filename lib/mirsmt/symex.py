"""Symbolic executor over rustc MIR (text dump) producing SMT-LIB (Int/Bool) terms.

* paths inside one function are enumerated; at function return all returning paths are merged with ite
  (function summary), so a caller stays single-path across calls;
* every `assert` terminator / explicit panic / `unreachable!()` becomes a *panic obligation*
  (path condition AND failure condition must be unsatisfiable);
* back-edges are unrolled up to `unroll` visits per block and path; exceeding it is an
  *unwinding obligation* (must be unsatisfiable), never a silent truncation;
* mode 'debug': overflow asserts are obligations; mode 'release': overflow asserts are skipped and the
  wrapped value flows on (both derived from the same dump);
* anything not understood raises NotEncodable (the query is then reported inconclusive).
"""
import os
import re
import sys
from . import mirparse as mp
from .terms import *
from .terms import T, Ctx, INT_TYPES, NonLinear


TRACE = bool(os.environ.get("MIRSMT_TRACE"))


class NotEncodable(Exception):
    pass


class Diverge(Exception):
    """every path of the callee panicked / was cut"""


# ---------------------------------------------------------------- values

class Int:
    __slots__ = ("t", "ty")

    def __init__(self, t, ty):
        self.t = t
        self.ty = ty

    def __repr__(self):
        return "Int(%r:%s)" % (self.t, self.ty)


class Bool:
    __slots__ = ("t",)

    def __init__(self, t):
        self.t = t

    def __repr__(self):
        return "Bool(%r)" % (self.t,)


class Flt:
    """an f64 known to hold an *integer* value t with |t| <= 2^53 (exactly representable, arithmetic exact).
    Every operation that could leave that envelope emits an 'fpexact' obligation; if one of them is
    satisfiable the query is outside this model and is reported inconclusive, never as a pass."""
    __slots__ = ("t",)

    def __init__(self, t):
        self.t = t

    def __repr__(self):
        return "Flt(%r)" % (self.t,)


F64_EXACT = 1 << 53


class Agg:
    __slots__ = ("f",)

    def __init__(self, f):
        self.f = list(f)

    def __repr__(self):
        return "Agg(%r)" % (self.f,)


class Enum:
    """discr: int|T ; variants: {discr value: [fields]} ; name: enum type name (for variant lookup)"""
    __slots__ = ("d", "v", "name")

    def __init__(self, d, v, name):
        self.d = d
        self.v = v
        self.name = name

    def __repr__(self):
        return "Enum(%s d=%r %r)" % (self.name, self.d, self.v)


class Ref:
    __slots__ = ("uid", "local", "proj")

    def __init__(self, uid, local, proj=()):
        self.uid = uid
        self.local = local
        self.proj = tuple(proj)

    def __repr__(self):
        return "Ref(%s.%s%r)" % (self.uid, self.local, self.proj)


class VecVal:
    """a Vec<T> of statically bounded capacity: the first `n` of `items` are its elements (n: int | T)"""
    __slots__ = ("items", "n")

    def __init__(self, items, n):
        self.items = list(items)
        self.n = n

    def __repr__(self):
        return "VecVal(n=%r, %r)" % (self.n, self.items)


class SliceIter:
    """core::slice::Iter over a VecVal / array: `pos` (concrete) elements already consumed"""
    __slots__ = ("items", "n", "pos", "enumerate")

    def __init__(self, items, n, pos, enumerate=False):
        self.items, self.n, self.pos, self.enumerate = list(items), n, pos, enumerate

    def __repr__(self):
        return "SliceIter(pos=%r, n=%r)" % (self.pos, self.n)


class Opaque:
    __slots__ = ("tag",)

    def __init__(self, tag):
        self.tag = tag

    def __repr__(self):
        return "Opaque(%s)" % self.tag


UNIT = Agg([])


def merge(c, a, b):
    """ite(c, a, b) on structured values"""
    if a is b:
        return a
    if isinstance(a, Int) and isinstance(b, Int):
        return Int(ite(c, a.t, b.t), a.ty)
    if isinstance(a, Bool) and isinstance(b, Bool):
        return Bool(ite(c, a.t, b.t))
    if isinstance(a, Flt) and isinstance(b, Flt):
        return Flt(ite(c, a.t, b.t))
    if isinstance(a, Agg) and isinstance(b, Agg) and len(a.f) == len(b.f):
        return Agg([merge(c, x, y) for x, y in zip(a.f, b.f)])
    if isinstance(a, Enum) and isinstance(b, Enum):
        v = {}
        for k in set(a.v) | set(b.v):
            if k in a.v and k in b.v:
                fa, fb = a.v[k], b.v[k]
                v[k] = [merge(c, x, y) for x, y in zip(fa, fb)] if len(fa) == len(fb) else fa
            else:
                v[k] = a.v.get(k, b.v.get(k))
        return Enum(ite(c, a.d, b.d), v, a.name or b.name)
    if isinstance(a, VecVal) and isinstance(b, VecVal):
        k = max(len(a.items), len(b.items))
        ia = a.items + [None] * (k - len(a.items))
        ib = b.items + [None] * (k - len(b.items))
        return VecVal([merge(c, x, y) for x, y in zip(ia, ib)], ite(c, a.n, b.n))
    if isinstance(a, Opaque) or isinstance(b, Opaque):
        return a if isinstance(a, Opaque) else b
    if isinstance(a, Ref) and isinstance(b, Ref):
        if (a.uid, a.local, a.proj) == (b.uid, b.local, b.proj):
            return a
        raise NotEncodable("merge of distinct references")
    if a is None:
        return b
    if b is None:
        return a
    raise NotEncodable("merge of %r and %r" % (type(a), type(b)))


class State:
    __slots__ = ("frames", "pc")

    def __init__(self, frames=None, pc=None):
        self.frames = frames if frames is not None else {}
        self.pc = pc if pc is not None else []

    def fork(self):
        return State({k: dict(v) for k, v in self.frames.items()}, list(self.pc))


# ---------------------------------------------------------------- the executor

OVERFLOW_MSG = re.compile(r"which would overflow|attempt to negate with overflow|attempt to shift (left|right) .* overflow")


class Executor:
    def __init__(self, fns, consts, sources, ctx=None, mode="debug", unroll=1, max_paths=4000):
        self.fns = fns
        self.consts = consts
        self.src = sources
        self.ctx = ctx or Ctx()
        self.mode = mode
        self.unroll = unroll
        self.max_paths = max_paths
        self.obligations = []     # [(kind, label, cond_term)]
        self.uid = 0
        self.encoded = set()      # names of MIR bodies executed
        self.models_used = set()
        self._index()
        self.const_cache = {}
        self.externals = []       # [(compiled regex, fn(ex, st, callee, args) -> value)]: environment supplied by a spec
        self.opaque_calls = None  # regex: callees treated as uninterpreted (logged, fresh opaque result) for wiring checks
        self.call_log = []        # [(callee text, args snapshot, result)]
        self.spies = {}           # Fn.name -> list of (args, return value, path condition) recorded at each call
        self.generics = {}        # session-wide instantiation of generic type parameters, e.g. {"T": "i128"}

    # ------------------------------------------------------------ function index
    def _index(self):
        self.ambiguous = {}
        self.by_key = {}     # (type, trait, method) -> Fn
        self.free = {}       # last segment -> [(full name, Fn)]
        derive_trait = {"cmp": "Ord", "partial_cmp": "PartialOrd", "eq": "PartialEq", "clone": "Clone",
                        "default": "Default", "fmt": "Debug", "assert_fields_are_eq": "Eq", "hash": "Hash"}
        self.closures = {}   # "src/file.rs:L:C: L:C" -> Fn
        for name, fl in self.fns.items():
            f = fl[0]
            if "{closure" in name:
                if f.args:
                    mc = re.search(r"\{closure@([^}]+)\}", f.args[0][1])
                    if mc:
                        self.closures[mc.group(1)] = f
                continue
            m = re.match(r"^(.*?)<impl at (src/[^:]+):(\d+):\d+: \d+:\d+>::(\w+)$", name)
            if m:
                rel, line, meth = m.group(2), int(m.group(3)), m.group(4)
                hdr = self.src.impl_at(rel, line)
                if hdr is None:
                    tyname = self.src.item_after(rel, line)
                    tr = derive_trait.get(meth)
                    if tyname:
                        self.by_key[(tyname, tr, meth)] = f
                    continue
                tr, ty = hdr
                if tr and "<" in tr:
                    # `impl PartialEq<f64> for T` must not shadow `impl PartialEq for T` (derived) under the bare trait name
                    self.by_key.setdefault((_last_seg(ty), _last_seg(tr), meth), f)
                else:
                    self.by_key[(_last_seg(ty), _last_seg(tr) if tr else None, meth)] = f
                if tr and "<" in tr:
                    full = _last_seg(tr) + _norm_generics(tr[tr.index("<"):])
                    self.by_key[(_last_seg(ty), full, meth)] = f
                    self.ambiguous.setdefault((_last_seg(ty), _last_seg(tr), meth), []).append(full)
                continue
            segs = name.split("::")
            if len(segs) >= 2 and segs[-2][:1].isupper() and "<" not in name:
                # trait default method: `Roundable::quotient_abs`
                self.by_key[("Self", segs[-2], segs[-1])] = f
            self.free.setdefault(segs[-1], []).append((name, f))

    def lookup(self, ty, trait, meth):
        if trait and "<" in trait:
            base = _last_seg(trait)
            full = base + _norm_generics(trait[trait.index("<"):])
            # normalise path-qualified generic arguments (core::num::NonZero<u128> -> NonZero<u128>)
            f = self.by_key.get((ty, full, meth))
            if f is not None:
                return f
            if len(self.ambiguous.get((ty, base, meth), [])) > 1:
                return None
            return self.by_key.get((ty, base, meth))
        if trait and len(self.ambiguous.get((ty, trait, meth), [])) > 1:
            return None
        return self.by_key.get((ty, trait, meth))

    # ------------------------------------------------------------ obligations
    def oblige(self, kind, label, pc, cond):
        c = and_(*(pc + [cond]))
        if is_c(c) and not c:
            return
        self.obligations.append((kind, label, c))

    # ------------------------------------------------------------ entry
    def call_fn(self, fn, args, state=None):
        """run MIR body `fn` on argument values; returns (value, state)"""
        st = state or State()
        v = self._exec_fn(st, fn, args, 0)
        return v, st

    def fn_by_key(self, ty, trait, meth):
        f = self.lookup(ty, trait, meth)
        if f is None:
            raise NotEncodable("no MIR body for %s/%s/%s" % (ty, trait, meth))
        return f

    def fn_free(self, name):
        segs = name.split("::")
        c = [f for (n, f) in self.free.get(segs[-1], [])
             if n == name or n.endswith("::" + name) or name.endswith("::" + n)]
        if len(c) != 1:
            raise NotEncodable("free fn %s: %d candidates" % (name, len(c)))
        return c[0]

    def fn_named(self, suffix):
        """the unique MIR body whose full name ends with `suffix` (closures included)"""
        c = [fl[0] for n, fl in self.fns.items() if n.endswith(suffix)]
        if len(c) != 1:
            raise NotEncodable("fn named *%s: %d candidates" % (suffix, len(c)))
        return c[0]

    # ------------------------------------------------------------ function bodies
    def _exec_fn(self, state, fn, args, depth):
        if depth > 60:
            raise NotEncodable("call depth")
        fn.parse()
        self.encoded.add(fn.name)
        self.uid += 1
        uid = self.uid
        if len(args) != len(fn.args):
            raise NotEncodable("arity %s: %d vs %d" % (fn.name, len(args), len(fn.args)))
        frame = {}
        for (a, _t), v in zip(fn.args, args):
            frame[a] = v
        state.frames[uid] = frame
        base_len = len(state.pc)
        work = [(state, "bb0", {})]
        finished = []
        npaths = 0
        while work:
            st, bb, visits = work.pop()
            while True:
                visits = dict(visits)
                visits[bb] = visits.get(bb, 0) + 1
                if visits[bb] > self.unroll + 1:
                    self.oblige("unwind", "%s:%s loop bound %d" % (fn.name, bb, self.unroll), st.pc, True)
                    break
                nxt = self._exec_block(st, fn, uid, bb, depth, work, visits)
                if nxt is None:
                    break
                if nxt == "return":
                    finished.append(st)
                    break
                bb = nxt
            npaths += 1
            if npaths > self.max_paths:
                raise NotEncodable("path explosion in %s" % fn.name)
        if not finished:
            raise Diverge(fn.name)
        # merge returning paths into `state`
        if len(finished) == 1:
            fs = finished[0]
            state.frames, state.pc = fs.frames, fs.pc
            ret = fs.frames[uid].get("_0", UNIT)
            if fn.name in self.spies:
                self.spies[fn.name].append((self._snap(state, args), ret, list(state.pc)))
            return ret
        conds = [and_(*fs.pc[base_len:]) for fs in finished]
        conds = [self.ctx.name(c, "pc") if isinstance(c, T) else c for c in conds]
        acc_frames = finished[-1].frames
        for fs, c in zip(reversed(finished[:-1]), reversed(conds[:-1])):
            newf = {}
            for k in acc_frames:
                fa, fb = fs.frames.get(k), acc_frames[k]
                if fa is None or fa is fb:
                    newf[k] = fb
                    continue
                fr = {}
                for loc in set(fa) | set(fb):
                    va, vb = fa.get(loc), fb.get(loc)
                    if va is vb:
                        fr[loc] = va
                    elif va is None or vb is None:
                        fr[loc] = va if vb is None else vb
                    else:
                        try:
                            fr[loc] = self._name_val(merge(c, va, vb))
                        except NotEncodable:
                            if k == uid and loc != "_0":
                                continue   # dead callee temporaries need no merge
                            raise
                newf[k] = fr
            acc_frames = newf
        state.frames = acc_frames
        state.pc = state.pc[:base_len] + [self.ctx.name(or_(*conds), "ret")]
        if fn.name in self.spies:
            self.spies[fn.name].append((self._snap(state, args), state.frames[uid].get("_0", UNIT), list(state.pc)))
        return state.frames[uid].get("_0", UNIT)

    def _snap(self, state, args):
        """argument values with references resolved at call time (for spies)"""
        out = []
        for a in args:
            try:
                out.append(self.deref(state, a))
            except NotEncodable:
                out.append(a)
        return out

    def _name_val(self, v):
        if isinstance(v, Int):
            return Int(self.ctx.name(v.t, "m"), v.ty)
        if isinstance(v, Bool):
            return Bool(self.ctx.name(v.t, "m"))
        if isinstance(v, Flt):
            return Flt(self.ctx.name(v.t, "m"))
        if isinstance(v, Agg):
            return Agg([self._name_val(x) for x in v.f])
        if isinstance(v, Enum):
            return Enum(self.ctx.name(v.d, "d"), {k: [self._name_val(x) for x in f] for k, f in v.v.items()}, v.name)
        return v

    def _exec_block(self, st, fn, uid, bb, depth, work, visits):
        self._cur_pc = st.pc
        self._cur_fn = fn.name
        if bb not in fn.blocks:
            raise NotEncodable("missing block %s in %s" % (bb, fn.name))
        for raw in fn.blocks[bb]:
            try:
                s = mp.parse_stmt(raw)
            except Exception as e:
                raise NotEncodable("unparsed statement in %s: %s (%s)" % (fn.name, raw[:80], e))
            k = s[0]
            if k == "nop":
                continue
            if k == "assign":
                rv = s[2]
                if rv[0] == "binop" and rv[1].endswith("WithOverflow") and self.mode == "debug" \
                        and self._asserted_next(fn, bb, raw, s[1]):
                    v = self._rvalue(st, fn, uid, rv, s[1], checked=True)
                else:
                    v = self._rvalue(st, fn, uid, rv, s[1])
                self._write(st, uid, s[1], v)
            elif k == "setdiscr":
                old = self._read_place(st, uid, s[1], allow_missing=True)
                if isinstance(old, Enum):
                    self._write(st, uid, s[1], Enum(s[2], old.v, old.name))
                else:
                    self._write(st, uid, s[1], Enum(s[2], {s[2]: []}, None))
            elif k == "goto":
                return s[1]
            elif k == "return":
                return "return"
            elif k == "unreachable":
                # compiler-proved unreachable (exhaustive match fall-through): not a panic
                return None
            elif k == "resume":
                return None
            elif k == "switch":
                return self._switch(st, fn, uid, s, work, visits)
            elif k == "assert":
                negated, op, msg, succ = s[1], s[2], s[3], s[4]
                b = self._operand(st, uid, op)
                if not isinstance(b, Bool):
                    raise NotEncodable("assert on non-bool")
                fail = b.t if negated else not_(b.t)
                ok = not_(fail)
                if self.mode == "release" and OVERFLOW_MSG.search(msg):
                    return succ
                self.oblige("panic", "%s:%s %s" % (fn.name, bb, msg), st.pc, fail)
                if is_c(ok):
                    if not ok:
                        return None
                else:
                    st.pc.append(ok)
                return succ
            elif k == "call":
                dest, callee, ops, ret = s[1], s[2], s[3], s[4]
                args = [self._operand(st, uid, o) for o in ops]
                try:
                    v = self._call(st, fn, uid, callee, args, depth)
                except Diverge as dv:
                    if TRACE:
                        print("  [diverge] %s in %s: %s" % (callee[:90], fn.name[-60:], dv), file=sys.stderr)
                    return None
                if ret is None:
                    return None
                if dest is not None:
                    self._write(st, uid, dest, v)
                return ret
            else:
                raise NotEncodable("statement %s in %s: %s" % (k, fn.name, raw[:100]))
        raise NotEncodable("block without terminator %s %s" % (fn.name, bb))

    def _asserted_next(self, fn, bb, raw, dest):
        """is this `_N = XWithOverflow(..)` immediately followed by `assert(!move (_N.1: bool), ..)`?"""
        blk = fn.blocks[bb]
        if dest[0] != "local" or len(blk) < 2 or blk[-2] != raw:
            return False
        return blk[-1].startswith("assert(!move (%s.1: bool)" % dest[1])

    def _switch(self, st, fn, uid, s, work, visits):
        v = self._operand(st, uid, s[1])
        if isinstance(v, Bool):
            t = v.t
            as_int = lambda k: (not_(t) if k == 0 else t)
            conc = is_c(t)
            cval = (1 if t else 0) if conc else None
        elif isinstance(v, Int):
            t = v.t
            as_int = lambda k: eq(t, k)
            conc = is_c(t)
            cval = t if conc else None
        else:
            raise NotEncodable("switchInt on %r" % (v,))
        targets = s[2]
        listed = [(int(k), bbn) for k, bbn in targets if k != "otherwise"]
        if isinstance(v, Int) and v.ty in INT_TYPES and INT_TYPES[v.ty][0]:
            # MIR prints switch targets as the unsigned bit pattern of the operand type (Ordering::Less = 255_i8)
            n = INT_TYPES[v.ty][1]
            listed = [((k - (1 << n)) if k >= (1 << (n - 1)) else k, bbn) for k, bbn in listed]
        other = [bbn for k, bbn in targets if k == "otherwise"]
        if conc:
            for k, bbn in listed:
                if k == cval:
                    return bbn
            return other[0] if other else None
        branches = []
        for k, bbn in listed:
            branches.append((as_int(k), bbn))
        if other:
            ob = other[0]
            blk = fn.blocks.get(ob, [])
            rest = and_(*[not_(as_int(k)) for k, _ in listed])
            if not (len(blk) == 1 and blk[0].strip() == "unreachable"):
                branches.append((rest, ob))
            else:
                # fall-through the compiler marked unreachable: skipped, but the solver must confirm that the
                # listed targets are exhaustive on this path (guards the encoder against a silently dropped path)
                self.oblige("exhaustive", "%s: switch fall-through marked unreachable" % fn.name, st.pc, rest)
        live = [(c, b) for c, b in branches if not (is_c(c) and not c)]
        if not live:
            return None
        for c, b in live[1:]:
            f = st.fork()
            f.pc.append(c)
            work.append((f, b, visits))
        c0, b0 = live[0]
        st.pc.append(c0)
        return b0

    # ------------------------------------------------------------ places
    def _resolve(self, st, uid, place):
        """-> (uid, local, proj list)"""
        k = place[0]
        if k == "local":
            return uid, place[1], []
        if k == "deref":
            r = self._read_place(st, uid, place[1])
            if isinstance(r, Ref):
                return r.uid, r.local, list(r.proj)
            raise NotEncodable("deref of %r" % (r,))
        if k == "field":
            u, l, p = self._resolve(st, uid, place[1])
            return u, l, p + [("f", place[2], place[3])]
        if k == "downcast":
            u, l, p = self._resolve(st, uid, place[1])
            return u, l, p + [("v", place[2])]
        raise NotEncodable("place kind %s" % k)

    def _read_place(self, st, uid, place, allow_missing=False):
        u, l, proj = self._resolve(st, uid, place)
        fr = st.frames.get(u)
        if fr is None or l not in fr:
            if allow_missing:
                return None
            raise NotEncodable("read of unset local %s" % l)
        return self._project(fr[l], proj)

    def _project(self, v, proj):
        i = 0
        while i < len(proj):
            p = proj[i]
            if p[0] == "v":
                if not isinstance(v, Enum):
                    raise NotEncodable("downcast of %r" % (v,))
                idx = self._variant_discr(v, p[1])
                nxt = proj[i + 1] if i + 1 < len(proj) else None
                fields = v.v.get(idx)
                if fields is None:
                    # variant not constructed on any merged path: infeasible under the path condition
                    if nxt and nxt[0] == "f":
                        return self._fresh_of_type(nxt[2], proj[i + 2:])
                    raise NotEncodable("absent variant")
                if nxt and nxt[0] == "f":
                    if nxt[1] >= len(fields):
                        return self._fresh_of_type(nxt[2], proj[i + 2:])
                    v = fields[nxt[1]]
                    i += 2
                    continue
                raise NotEncodable("downcast without field")
            elif p[0] == "f":
                if isinstance(v, Agg):
                    if p[1] >= len(v.f):
                        raise NotEncodable("field %d of %r" % (p[1], v))
                    v = v.f[p[1]]
                elif isinstance(v, Enum) and len(v.v) == 1:
                    v = list(v.v.values())[0][p[1]]
                elif isinstance(v, Opaque):
                    return Opaque(v.tag + ".%d" % p[1])
                else:
                    raise NotEncodable("field of %r" % (v,))
            i += 1
        return v

    def _fresh_of_type(self, ty, rest):
        ty = ty.strip()
        if rest:
            raise NotEncodable("projection through absent variant")
        if ty in INT_TYPES:
            return Int(self.ctx.var("junk"), ty)
        if ty == "bool":
            return Bool(self.ctx.var("junk", "Bool"))
        if ty == "f64":
            return Flt(self.ctx.var("junk"))
        return Opaque("absent:" + ty)

    def _variant_discr(self, enum, vname):
        name = enum.name
        vs = self.src.enums.get(name) if name else None
        if vs is None:
            for nm, cand in self.src.enums.items():
                if any(x[0] == vname for x in cand) and nm in ("Option", "Result", "ControlFlow", "Ordering"):
                    vs = cand
                    break
        if vs is None:
            for nm, cand in self.src.enums.items():
                if any(x[0] == vname for x in cand):
                    vs = cand
                    break
        if vs is None:
            raise NotEncodable("unknown enum for variant %s" % vname)
        for (vn, d, nf) in vs:
            if vn == vname:
                return d
        raise NotEncodable("variant %s not in %s" % (vname, name))

    def _write(self, st, uid, place, val):
        u, l, proj = self._resolve(st, uid, place)
        fr = st.frames[u]
        if not proj:
            fr[l] = val
            return
        fr[l] = self._update(fr.get(l), proj, val)

    def _update(self, v, proj, val):
        if not proj:
            return val
        p = proj[0]
        if p[0] == "f":
            if v is None:
                v = Agg([])
            if isinstance(v, Agg):
                f = list(v.f)
                while len(f) <= p[1]:
                    f.append(None)
                f[p[1]] = self._update(f[p[1]], proj[1:], val)
                return Agg(f)
            raise NotEncodable("field write into %r" % (v,))
        if p[0] == "v":
            idx = None
            if isinstance(v, Enum):
                idx = self._variant_discr(v, p[1])
                fields = list(v.v.get(idx, []))
                nxt = proj[1]
                while len(fields) <= nxt[1]:
                    fields.append(None)
                fields[nxt[1]] = self._update(fields[nxt[1]], proj[2:], val)
                nv = dict(v.v)
                nv[idx] = fields
                return Enum(v.d, nv, v.name)
            raise NotEncodable("variant write into %r" % (v,))
        raise NotEncodable("write proj")

    # ------------------------------------------------------------ operands / consts
    def _operand(self, st, uid, op):
        k = op[0]
        if k in ("copy", "move"):
            return self._read_place(st, uid, op[1])
        if k == "const":
            return self._const(op[1], st)
        if k == "fnitem":
            return Opaque("fn:" + op[1])
        raise NotEncodable("operand %r" % (op,))

    def _const(self, s, cur=None):
        for gp, gt_ in self.generics.items():
            s = re.sub(r"\b%s\b" % re.escape(gp), gt_, s)
        m = re.match(r"^(-?\d+)_([iu](?:8|16|32|64|128|size))$", s)
        if m:
            return Int(int(m.group(1)), m.group(2))
        if s == "true":
            return Bool(True)
        if s == "false":
            return Bool(False)
        if s == "()":
            return UNIT
        if s.startswith('"') or s.startswith("b\"") or s.startswith("'"):
            return Opaque("str")
        m = re.match(r"^(-?[\d.eE+-]+|inf|-inf|NaN)(f64|f32)$", s)
        if m:
            try:
                fv = float(m.group(1))
                if fv == int(fv) and abs(fv) <= F64_EXACT:
                    return Flt(int(fv))
            except (ValueError, OverflowError):
                pass
            return Opaque("float:" + s)
        # named constant
        name = _strip_generics(s)
        mq = re.match(r"^<(.+?) as (.+?)>::(.*::promoted\[\d+\])$", name)
        if mq:
            name = _last_seg(mq.group(2)) + "::" + mq.group(3)
        mp_ = re.search(r"::(promoted\[\d+\])$", name)
        if mp_ and name not in self.consts and getattr(self, "_cur_fn", None):
            alt = self._cur_fn + "::" + mp_.group(1)
            if alt in self.consts:
                name = alt
        cands = [n for n in self.consts if n == name or n.endswith("::" + name) or name.endswith("::" + n)]
        if not cands:
            # inherent associated constant `path::Type::NAME`: printed as `module::<impl at file:line>::NAME` in the dump
            mt = re.match(r"^(?:.*::)?([A-Z]\w*)::([A-Z][A-Z0-9_]*)$", name)
            if mt:
                for n in self.consts:
                    mi = re.match(r"^.*<impl at (src/[^:]+):(\d+):\d+: \d+:\d+>::" + re.escape(mt.group(2)) + "$", n)
                    if mi:
                        hdr = self.src.impl_at(mi.group(1), int(mi.group(2)))
                        if hdr and hdr[0] is None and _last_seg(hdr[1]) == mt.group(1):
                            cands.append(n)
        if len(cands) >= 1:
            cands.sort(key=len)
            cn = cands[-1] if name in cands else cands[0]
            if name in self.consts:
                cn = name
            if cn in self.const_cache:
                v, frames = self.const_cache[cn]
                if cur is not None:
                    for k2, fr in frames.items():
                        cur.frames.setdefault(k2, fr)
                return v
            f = self.consts[cn]
            if isinstance(f, str):
                v = self._const(f, cur)
                self.const_cache[cn] = (v, {})
                return v
            st = State()
            v = self._exec_fn(st, f, [], 1)
            self.const_cache[cn] = (v, st.frames)
            if cur is not None:
                for k2, fr in st.frames.items():
                    cur.frames.setdefault(k2, fr)
            return v
        m = re.match(r"^<(.+) as (.+)>::(\w+)$", s)
        if m:
            v = self._assoc_const(m.group(1), m.group(2), m.group(3))
            if v is not None:
                return v
        m = re.match(r"^(?:core::num::|std::num::)?NonZero::<([iu]\d+|[iu]size)>::(MAX|MIN)$", s)
        if m:
            lo, hi = ty_range(m.group(1))
            return Int(hi if m.group(2) == "MAX" else (1 if lo == 0 else lo), m.group(1))
        m = re.match(r"^(?:core::num::<impl )?([iu]\d+|[iu]size)(?:>)?::(MAX|MIN)$", s)
        if m:
            lo, hi = ty_range(m.group(1))
            return Int(hi if m.group(2) == "MAX" else lo, m.group(1))
        return Opaque("const:" + s)

    def _assoc_const(self, ty, trait, name):
        ty = ty.strip()
        if ty in INT_TYPES and name in ("ZERO", "ONE", "MAX", "MIN"):
            lo, hi = ty_range(ty)
            return Int({"ZERO": 0, "ONE": 1, "MAX": hi, "MIN": lo}[name], ty)
        return None

    # ------------------------------------------------------------ rvalues
    def _rvalue(self, st, fn, uid, rv, dest, checked=False):
        k = rv[0]
        if k == "use":
            return self._operand(st, uid, rv[1])
        if k == "binop":
            a = self._operand(st, uid, rv[2])
            b = self._operand(st, uid, rv[3])
            return self._binop(rv[1], a, b, checked)
        if k == "unop":
            a = self._operand(st, uid, rv[2])
            if rv[1] == "Not":
                if isinstance(a, Bool):
                    return Bool(not_(a.t))
                if isinstance(a, Int):
                    # bitwise not: -(x) - 1 wrapped for signed; max - x for unsigned
                    lo, hi = ty_range(a.ty)
                    return Int(sub(hi, a.t) if lo == 0 else sub(neg(a.t), 1), a.ty)
            if rv[1] == "Neg" and isinstance(a, Int):
                return Int(wrap(neg(a.t), a.ty), a.ty)
            if rv[1] == "Neg" and isinstance(a, Flt):
                return Flt(neg(a.t))
            raise NotEncodable("unop %s on %r" % (rv[1], a))
        if k == "cast":
            a = self._operand(st, uid, rv[1])
            ty, kind = rv[2].strip(), rv[3]
            if kind == "IntToInt":
                if isinstance(a, Int) and ty in INT_TYPES:
                    return Int(self.ctx.name(wrap(a.t, ty), "c"), ty)
                if isinstance(a, Bool) and ty in INT_TYPES:
                    return Int(ite(a.t, 1, 0), ty)
                if isinstance(a, Enum) and ty in INT_TYPES:
                    return Int(wrap(a.d, ty), ty)
            if kind == "IntToFloat" and isinstance(a, Int) and ty == "f64":
                self.oblige("fpexact", "%s: int -> f64 beyond 2^53" % fn.name, st.pc,
                            not_(and_(le(-F64_EXACT, a.t), le(a.t, F64_EXACT))))
                return Flt(a.t)
            if kind == "FloatToInt" and isinstance(a, Flt) and ty in INT_TYPES:
                lo, hi = ty_range(ty)       # Rust float -> int casts saturate
                return Int(self.ctx.name(ite(lt(a.t, lo), lo, ite(gt(a.t, hi), hi, a.t)), "fi"), ty)
            if kind.startswith("PointerCoercion") or kind in ("Transmute", "PtrToPtr"):
                return a
            raise NotEncodable("cast %s of %r to %s" % (kind, a, ty))
        if k == "ref":
            u, l, p = self._resolve(st, uid, rv[1])
            return Ref(u, l, p)
        if k == "discr":
            v = self._read_place(st, uid, rv[1])
            if isinstance(v, Enum):
                dty = fn.locals.get(dest[1], "isize") if dest and dest[0] == "local" else "isize"
                return Int(v.d, dty if dty in INT_TYPES else "isize")
            raise NotEncodable("discriminant of %r" % (v,))
        if k == "tuple":
            return Agg([self._operand(st, uid, o) for o in rv[1]])
        if k == "array":
            return Agg([self._operand(st, uid, o) for o in rv[1]])
        if k in ("agg_tuple", "agg_named", "agg_unit"):
            return self._aggregate(st, uid, rv)
        raise NotEncodable("rvalue %r" % (rv,))

    def _aggregate(self, st, uid, rv):
        k, path = rv[0], rv[1]
        if k == "agg_named":
            ops = [self._operand(st, uid, o) for _, o in rv[2]]
            names = [n for n, _ in rv[2]]
        elif k == "agg_tuple":
            ops = [self._operand(st, uid, o) for o in rv[2]]
            names = None
        else:
            ops, names = [], None
        base = re.sub(r"::<.*?>(?=::|$)", "", _strip_generics(path))
        segs = base.split("::")
        last = segs[-1]
        # enum variant?
        if len(segs) >= 2:
            en = segs[-2]
            vs = self.src.enums.get(en)
            if vs:
                for (vn, d, nf) in vs:
                    if vn == last:
                        return Enum(d, {d: ops}, en)
        # struct
        if last in self.src.structs:
            fields = self.src.structs[last]
            if names is not None and isinstance(fields, list):
                order = {n: i for i, n in enumerate(fields)}
                out = [None] * len(fields)
                for n, v in zip(names, ops):
                    if n not in order:
                        raise NotEncodable("field %s of %s" % (n, last))
                    out[order[n]] = v
                return Agg(out)
            return Agg(ops)
        if path.startswith("{closure"):
            return Agg(ops)
        if k == "agg_unit":
            # a bare field-less variant (`_1 = Equal;`): core::cmp::Ordering is printed without its path
            if len(segs) == 1 and last in ("Less", "Equal", "Greater"):
                return Enum({"Less": -1, "Equal": 0, "Greater": 1}[last], {-1: [], 0: [], 1: []}, "Ordering")
            return Opaque("unit:" + path)
        if names is None and k == "agg_tuple":
            # tuple struct from another crate (e.g. NonZero) or unknown: keep the fields
            return Agg(ops)
        raise NotEncodable("aggregate %s" % path)

    def _binop(self, op, a, b, checked=False):
        if isinstance(a, Bool) and isinstance(b, Bool):
            if op == "Eq":
                return Bool(eq(a.t, b.t) if not is_c(a.t, b.t) else a.t == b.t)
            if op == "Ne":
                return Bool(not_(eq(a.t, b.t)) if not is_c(a.t, b.t) else a.t != b.t)
            if op == "BitAnd":
                return Bool(and_(a.t, b.t))
            if op == "BitOr":
                return Bool(or_(a.t, b.t))
            if op == "BitXor":
                return Bool(not_(eq(a.t, b.t)) if not is_c(a.t, b.t) else a.t != b.t)
        if isinstance(a, Flt) and isinstance(b, Flt):
            x, y = a.t, b.t
            if op in ("Eq", "Ne", "Lt", "Le", "Gt", "Ge"):
                f = {"Eq": eq, "Ne": ne, "Lt": lt, "Le": le, "Gt": gt, "Ge": ge}[op]
                return Bool(f(x, y))
            if op in ("Add", "Sub", "Mul"):
                if op == "Mul" and not is_c(x) and not is_c(y):
                    raise NotEncodable("symbolic f64 * symbolic f64")
                r = self.ctx.name({"Add": add, "Sub": sub, "Mul": mul}[op](x, y), "f")
                self.oblige("fpexact", "f64 %s result beyond 2^53" % op, self._cur_pc,
                            not_(and_(le(-F64_EXACT, r), le(r, F64_EXACT))))
                return Flt(r)
            raise NotEncodable("f64 binop %s" % op)
        if isinstance(a, Enum) and isinstance(b, Enum) and op in ("Eq", "Ne"):
            r = eq(a.d, b.d)
            return Bool(r if op == "Eq" else not_(r))
        if not (isinstance(a, Int) and isinstance(b, Int)):
            raise NotEncodable("binop %s on %r, %r" % (op, a, b))
        ty = a.ty
        x, y = a.t, b.t
        nm = self.ctx.name
        if op in ("AddWithOverflow", "SubWithOverflow", "MulWithOverflow"):
            try:
                exact = {"A": add, "S": sub, "M": mul}[op[0]](x, y)
            except NonLinear:
                raise NotEncodable("symbolic * symbolic")
            exact = nm(exact, "x")
            # the flag keeps its raw form (decided by the solver); the value may use interval knowledge
            flag = not_(in_range(exact, ty, raw=True))
            if checked:
                # debug semantics and the very next terminator asserts !flag: on every continuing path
                # the exact value is in range, so it flows on unwrapped with its interval clipped
                val = clip(exact, ty)
            else:
                val = wrap(exact, ty)
            return Agg([Int(nm(val, "w"), ty), Bool(nm(flag, "o"))])
        if op in ("Add", "Sub", "Mul", "AddUnchecked", "SubUnchecked", "MulUnchecked"):
            try:
                exact = {"A": add, "S": sub, "M": mul}[op[0]](x, y)
            except NonLinear:
                raise NotEncodable("symbolic * symbolic")
            return Int(nm(wrap(exact, ty), "w"), ty)
        if op == "Div":
            if not is_c(y):
                raise NotEncodable("symbolic divisor")
            return Int(nm(tdiv(x, y) if ty_range(ty)[0] < 0 else ediv(x, y), "q"), ty)
        if op == "Rem":
            if not is_c(y):
                raise NotEncodable("symbolic divisor")
            return Int(nm(trem(x, y) if ty_range(ty)[0] < 0 else emod(x, y), "r"), ty)
        if op in ("Eq", "Ne", "Lt", "Le", "Gt", "Ge"):
            f = {"Eq": eq, "Ne": ne, "Lt": lt, "Le": le, "Gt": gt, "Ge": ge}[op]
            return Bool(f(x, y))
        if op == "Cmp":
            return Enum(ite(lt(x, y), -1, ite(eq(x, y), 0, 1)), {-1: [], 0: [], 1: []}, "Ordering")
        if op in ("BitOr", "BitAnd"):
            # only masks of the form 2^k - 1 with non-negative operands
            if is_c(x) and not is_c(y):
                x, y = y, x
            if is_c(y) and y >= 0 and (y & (y + 1)) == 0 and ty_range(ty)[0] == 0:
                low = emod(x, y + 1)
                if op == "BitAnd":
                    return Int(nm(low, "b"), ty)
                return Int(nm(add(sub(x, low), y), "b"), ty)
            if is_c(x, y):
                return Int(x | y if op == "BitOr" else x & y, ty)
            raise NotEncodable("bit op %s with %r" % (op, y))
        if op in ("Shl", "Shr", "ShlUnchecked", "ShrUnchecked"):
            if is_c(y):
                if op.startswith("Shl"):
                    return Int(nm(wrap(mul(x, 1 << y), ty), "s"), ty)
                return Int(nm(ediv(x, 1 << y), "s"), ty)
            raise NotEncodable("symbolic shift")
        raise NotEncodable("binop %s" % op)

    # ------------------------------------------------------------ calls
    def _call(self, st, fn, uid, callee, args, depth):
        from . import models
        callee = callee.strip()
        for gp, gt_ in self.generics.items():
            callee = re.sub(r"\b%s\b" % re.escape(gp), gt_, callee)
        for rx, cb in self.externals:
            if rx.search(callee):
                return cb(self, st, callee, args)
        if self.opaque_calls is not None and self.opaque_calls.search(_strip_generics(callee)):
            res = Opaque("ret:%s#%d" % (_strip_generics(callee), len(self.call_log)))
            self.call_log.append((_strip_generics(callee), self._snap(st, args), res))
            return res
        r = models.try_model(self, st, callee, args)
        if r is not models.NO_MODEL:
            self.models_used.add(models.LAST[0])
            return r
        target = self._resolve_callee(callee, args, st)
        if target is None:
            # provided (default) trait methods of core: `ne` through the impl's `eq`, `lt/le/gt/ge` through `partial_cmp`
            md = re.match(r"^(<.+ as .+>)::(ne|lt|le|gt|ge)$", _strip_generics(callee))
            if md and callee.startswith("<&"):
                args = [self._deref_once(st, a) for a in args]
            if md:
                base, meth = md.group(1), md.group(2)
                orig_prefix = callee[:callee.rindex("::")]
                if meth == "ne":
                    t2 = self._resolve_callee(orig_prefix + "::eq", args, st)
                    if t2 is not None:
                        v = self._exec_fn(st, t2, args, depth + 1)
                        if isinstance(v, Bool):
                            return Bool(not_(v.t))
                else:
                    t2 = self._resolve_callee(orig_prefix + "::partial_cmp", args, st)
                    if t2 is not None:
                        v = self._exec_fn(st, t2, args, depth + 1)
                        if isinstance(v, Enum) and 1 in v.v and isinstance(v.v[1][0], Enum):
                            o = v.v[1][0].d
                            some = eq(v.d, 1)
                            f = {"lt": lt(o, 0), "le": le(o, 0), "gt": gt(o, 0), "ge": ge(o, 0)}[meth]
                            return Bool(and_(some, f))
            raise NotEncodable("unresolved callee `%s` (from %s)" % (callee, fn.name))
        if callee.startswith("<&") and not target.name.startswith("<&"):
            # `<&T as Trait>::m(&&a, ..)` forwarded to T's impl: drop the extra reference level
            args = [self._deref_once(st, a) for a in args]
        return self._exec_fn(st, target, args, depth + 1)

    def _deref_once(self, st, v):
        if isinstance(v, Ref):
            fr = st.frames.get(v.uid)
            if fr is not None and v.local in fr:
                inner = self._project(fr[v.local], list(v.proj))
                if isinstance(inner, Ref):
                    return inner
        return v

    def call_path(self, st, callee, args, depth=5):
        """call `callee` (MIR callee text) from a model: externals, models and MIR bodies are tried as for any call"""
        class _From:
            name = "<model>"
        return self._call(st, _From, 0, callee, list(args), depth + 1)

    def call_closure(self, st, callee_text, env, call_args, depth=5):
        """invoke the closure whose type `{closure@span}` appears in `callee_text`"""
        mc = re.search(r"\{closure@([^}]+)\}", callee_text)
        if not mc or mc.group(1) not in self.closures:
            raise NotEncodable("closure body not found for " + callee_text[:80])
        return self._exec_fn(st, self.closures[mc.group(1)], [env] + list(call_args), depth + 1)

    def temp_ref(self, st, value):
        self.uid += 1
        st.frames[self.uid] = {"_v": value}
        return Ref(self.uid, "_v")

    def write_through(self, st, ref, val):
        """*ref = val for a model that mutates through a `&mut`"""
        while True:
            fr = st.frames.get(ref.uid)
            if fr is None or ref.local not in fr:
                raise NotEncodable("dangling ref")
            inner = fr[ref.local]
            if isinstance(inner, Ref) and not ref.proj:
                ref = inner
                continue
            break
        fr[ref.local] = self._update(fr[ref.local], list(ref.proj), val)

    def deref(self, st, v):
        while isinstance(v, Ref):
            fr = st.frames.get(v.uid)
            if fr is None or v.local not in fr:
                raise NotEncodable("dangling ref")
            v = self._project(fr[v.local], list(v.proj))
        return v

    def _dyn_type(self, st, v):
        v = self.deref(st, v)
        if isinstance(v, Int):
            return v.ty
        if isinstance(v, Flt):
            return "f64"
        if isinstance(v, Bool):
            return "bool"
        if isinstance(v, Enum) and v.name:
            return v.name
        return None

    def _resolve_callee(self, callee, args, st):
        c = _strip_generics(callee)
        m = re.match(r"^<(.+) as (.+)>::(\w+)$", c)
        if m:
            ty, tr, meth = m.group(1).strip(), _last_seg(_strip_generics(m.group(2))), m.group(3)
            tyl = _last_seg(_strip_generics(ty.lstrip("&").replace("mut ", "")))
            trait_full = m.group(2).strip()
            if ty.startswith("&"):
                # `impl PartialEq<&B> for &A` forwards to `impl PartialEq<B> for A`
                trait_full = re.sub(r"<&(?:'\w+ )?(?:mut )?", "<", trait_full)
            f = self.lookup(tyl, trait_full, meth)
            if f is None:
                f = self.lookup(tyl, tr, meth)
            if f is None and args:
                dt = self._dyn_type(st, args[0])
                if dt:
                    f = self.lookup(dt, tr, meth)
            if f is None:
                f = self.lookup("Self", tr, meth)
            return f
        segs = c.split("::")
        meth = segs[-1]
        if len(segs) >= 2 and segs[-2][:1].isupper():
            f = self.lookup(segs[-2], None, meth)
            if f is not None:
                return f
            # inherent call on a trait-implemented method (`Type::method`)
            cands = [v for (ty, tr, me), v in self.by_key.items() if ty == segs[-2] and me == meth]
            if len(cands) == 1:
                return cands[0]
        cands = self.free.get(meth, [])
        exact = [f for (n, f) in cands if n == c or n.endswith("::" + c) or c.endswith("::" + n)]
        if len(exact) == 1:
            return exact[0]
        if len(cands) == 1 and len(segs) == 1:
            return cands[0][1]
        return None


def _norm_generics(g):
    """generic argument text with module paths dropped: `<duration::date::DateDuration>` -> `<DateDuration>`"""
    return re.sub(r"(?:[A-Za-z_][A-Za-z0-9_]*::)+", "", g).replace(" ", "")


def _strip_generics(s):
    """remove every `::<...>` turbofish segment"""
    out, i, n = [], 0, len(s)
    while i < n:
        if s.startswith("::<", i) and not (s.startswith("::<impl ", i) and _closing(s, i + 2) < n - 1):
            d, j = 0, i + 2
            while j < n:
                if s[j] == "<":
                    d += 1
                elif s[j] == ">" and s[j - 1] != "-":
                    d -= 1
                    if d == 0:
                        break
                j += 1
            i = j + 1
            continue
        out.append(s[i])
        i += 1
    return "".join(out)


def _closing(s, i):
    """index of the '>' closing the '<' at s[i]"""
    d = 0
    for j in range(i, len(s)):
        if s[j] == "<":
            d += 1
        elif s[j] == ">" and s[j - 1] != "-":
            d -= 1
            if d == 0:
                return j
    return len(s) - 1


def _last_seg(s):
    if s is None:
        return None
    s = s.strip()
    # drop generic args
    d, out = 0, []
    for ch in s:
        if ch == "<":
            d += 1
        elif ch == ">":
            d -= 1
        elif d == 0:
            out.append(ch)
    return "".join(out).split("::")[-1].strip()
