"""Parser for rustc's `-Zunpretty=mir` text dump (the subset the encoder executes).

Everything is parsed from the dump produced from /repo's *current* working tree; nothing is
cached across tree changes (see dump.py).  Unknown syntax is kept as `('raw', text)` so the
executor can report "not encodable" instead of guessing.
"""
import re


class Fn:
    __slots__ = ("name", "args", "ret", "locals", "blocks", "lines", "parsed", "kind", "start_line")

    def __init__(self, name, args, ret, lines, kind, start_line):
        self.name = name
        self.args = args          # [(local, type)]
        self.ret = ret
        self.lines = lines
        self.kind = kind          # 'fn' | 'const'
        self.parsed = False
        self.locals = {}
        self.blocks = {}
        self.start_line = start_line

    def parse(self):
        if self.parsed:
            return self
        self.parsed = True
        self.locals = {a: t for a, t in self.args}
        self.locals["_0"] = self.ret
        cur = None
        for raw in self.lines:
            l = raw.strip()
            if not l or l.startswith("//"):
                continue
            m = re.match(r"^let (?:mut )?(_\d+): (.*);$", l)
            if m:
                self.locals[m.group(1)] = m.group(2)
                continue
            if l.startswith("debug ") or l.startswith("scope ") or l == "}":
                if l == "}":
                    cur = None if cur is not None and raw.startswith("    }") else cur
                continue
            m = re.match(r"^(bb\d+)(?: \(cleanup\))?: \{$", l)
            if m:
                cur = m.group(1)
                self.blocks[cur] = []
                continue
            if cur is not None:
                # strip trailing comments
                l = re.sub(r"\s*//.*$", "", l)
                if l.endswith(";"):
                    l = l[:-1]
                self.blocks[cur].append(l)
        return self


def split_top(s, sep=","):
    """split at top-level separators (outside <>, (), [], {}, and string literals)"""
    out, depth, cur, i, n = [], 0, [], 0, len(s)
    instr = False
    while i < n:
        c = s[i]
        if instr:
            cur.append(c)
            if c == "\\" and i + 1 < n:
                cur.append(s[i + 1]); i += 1
            elif c == '"':
                instr = False
        elif c == '"':
            instr = True; cur.append(c)
        elif c == "'" and i + 2 < n and s[i + 2] == "'":
            cur.append(s[i:i + 3]); i += 2
        elif c in "<([{":
            # '<' only counts when it looks like a generic bracket (not ' < ')
            if c == "<" and (i + 1 < n and s[i + 1] == " " and i > 0 and s[i - 1] == " "):
                cur.append(c)
            else:
                depth += 1; cur.append(c)
        elif c in ">)]}":
            if c == ">" and i > 0 and s[i - 1] in "-=":   # '->' / '=>'
                cur.append(c)
            elif c == ">" and (i + 1 < n and s[i + 1] == " " and i > 0 and s[i - 1] == " "):
                cur.append(c)
            else:
                depth -= 1; cur.append(c)
        elif c == sep and depth == 0:
            out.append("".join(cur).strip()); cur = []
        else:
            cur.append(c)
        i += 1
    last = "".join(cur).strip()
    if last:
        out.append(last)
    return out


HDR_FN = re.compile(r"^fn ([^(]+)\((.*)\) -> (.+) \{$")
HDR_CONST = re.compile(r"^(?:const|static(?: mut)?) (.+): (.+?) = \{$")


def parse_dump(text):
    """-> (fns: {name: [Fn,...]}, consts: {name: Fn})"""
    fns, consts = {}, {}
    lines = text.split("\n")
    i, n = 0, len(lines)
    skip_next_ctfe = False
    while i < n:
        l = lines[i]
        if l.startswith("// MIR FOR CTFE"):
            skip_next_ctfe = True
            i += 1
            continue
        ms = re.match(r"^(?:const|static(?: mut)?) (.+): (.+?) = const (.+);$", l)
        if ms:
            consts[ms.group(1).strip()] = ms.group(3).strip()
            skip_next_ctfe = False
            i += 1
            continue
        m = HDR_FN.match(l)
        mc = HDR_CONST.match(l) if not m else None
        if m or mc:
            j = i + 1
            while j < n and lines[j] != "}":
                j += 1
            body = lines[i + 1:j]
            if m:
                name = m.group(1).strip()
                args = []
                for a in split_top(m.group(2)):
                    mm = re.match(r"^(_\d+): (.*)$", a)
                    if mm:
                        args.append((mm.group(1), mm.group(2)))
                f = Fn(name, args, m.group(3).strip(), body, "fn", i + 1)
                if skip_next_ctfe:
                    skip_next_ctfe = False   # CTFE duplicate of a const fn: keep only the runtime body
                    if name not in fns:
                        fns.setdefault(name, []).append(f)
                else:
                    fns.setdefault(name, []).append(f)
            else:
                name = mc.group(1).strip()
                f = Fn(name, [], mc.group(2).strip(), body, "const", i + 1)
                consts[name] = f
                skip_next_ctfe = False
            i = j + 1
            continue
        i += 1
    return fns, consts


# ---------------------------------------------------------------- places / operands / rvalues

def parse_place(s):
    """-> nested tuples: ('local','_1') | ('deref',p) | ('field',p,idx,ty) | ('downcast',p,variant) | ('index',p,local)"""
    s = s.strip()
    m = re.match(r"^_\d+$", s)
    if m:
        return ("local", s)
    if s.startswith("(*") and s.endswith(")") and _balanced(s[1:-1]):
        return ("deref", parse_place(s[2:-1]))
    if s.startswith("(") and s.endswith(")") and _balanced(s[1:-1]):
        inner = s[1:-1]
        # (P as Variant)
        k = _rfind_top(inner, " as ")
        kf = _find_field(inner)
        if kf is not None:
            base, idx, ty = kf
            return ("field", parse_place(base), idx, ty)
        if k >= 0:
            return ("downcast", parse_place(inner[:k]), inner[k + 4:].strip())
    m = re.match(r"^(.*)\[(_\d+)\]$", s)
    if m:
        return ("index", parse_place(m.group(1)), m.group(2))
    m = re.match(r"^(.*)\[(\d+) of (\d+)\]$", s)
    if m:
        return ("cindex", parse_place(m.group(1)), int(m.group(2)))
    raise ValueError("place? " + s)


def _balanced(s):
    d = 0
    for c in s:
        if c in "([":
            d += 1
        elif c in ")]":
            d -= 1
            if d < 0:
                return False
    return d == 0


def _rfind_top(s, pat):
    d = 0
    i = len(s) - 1
    while i >= 0:
        c = s[i]
        if c in ")]":
            d += 1
        elif c in "([":
            d -= 1
        elif d == 0 and s.startswith(pat, i):
            return i
        i -= 1
    return -1


def _find_field(inner):
    """inner = 'P.N: TY' with P possibly parenthesised. returns (P, N, TY) or None"""
    # find the first top-level ': ' and the '.N' before it
    d = 0
    for i, c in enumerate(inner):
        if c in "([<":
            d += 1
        elif c in ")]>":
            d -= 1
        elif c == ":" and d == 0 and inner[i:i + 2] == ": " and (i == 0 or inner[i - 1] != ":") :
            left, ty = inner[:i], inner[i + 2:]
            m = re.match(r"^(.*)\.(\d+)$", left)
            if m:
                return m.group(1), int(m.group(2)), ty
            return None
    return None


def parse_operand(s):
    s = s.strip()
    if s.startswith("no_retag "):
        s = s[9:]
    if s.startswith("copy "):
        return ("copy", parse_place(s[5:]))
    if s.startswith("move "):
        return ("move", parse_place(s[5:]))
    if s.startswith("const "):
        return ("const", s[6:].strip())
    return ("fnitem", s)


BINOPS = {"Add", "Sub", "Mul", "Div", "Rem", "BitXor", "BitAnd", "BitOr", "Shl", "Shr", "Eq", "Lt", "Le",
          "Ne", "Ge", "Gt", "Cmp", "AddWithOverflow", "SubWithOverflow", "MulWithOverflow",
          "AddUnchecked", "SubUnchecked", "MulUnchecked", "ShlUnchecked", "ShrUnchecked", "Offset"}


def parse_rvalue(s):
    s = s.strip()
    if s.startswith("no_retag "):
        s = s[9:]
    m = re.match(r"^(\w+)\((.*)\)$", s)
    if m and m.group(1) in BINOPS:
        a, b = split_top(m.group(2))
        return ("binop", m.group(1), parse_operand(a), parse_operand(b))
    if m and m.group(1) in ("Not", "Neg"):
        return ("unop", m.group(1), parse_operand(m.group(2)))
    if m and m.group(1) == "discriminant":
        return ("discr", parse_place(m.group(2)))
    if m and m.group(1) in ("Len", "PtrMetadata"):
        return ("raw", s)
    if s.startswith("&raw "):
        return ("raw", s)
    if s.startswith("&mut "):
        return ("ref", parse_place(s[5:]))
    if s.startswith("&"):
        return ("ref", parse_place(s[1:]))
    if s == "()":
        return ("tuple", [])
    # cast: OPERAND as TYPE (Kind)
    m = re.match(r"^((?:copy|move|const) .*) as (.+) \((\w+(?:\([^)]*\))?)\)$", s)
    if m:
        return ("cast", parse_operand(m.group(1)), m.group(2), m.group(3))
    if s.startswith("copy ") or s.startswith("move ") or s.startswith("const "):
        return ("use", parse_operand(s))
    if s.startswith("(") and s.endswith(")") and _balanced(s[1:-1]):
        items = split_top(s[1:-1])
        return ("tuple", [parse_operand(x) for x in items])
    if s.startswith("[") and s.endswith("]"):
        inner = s[1:-1]
        if ";" in inner and _balanced(inner):
            return ("raw", s)
        return ("array", [parse_operand(x) for x in split_top(inner)])
    # aggregate: Path::Variant(ops) | Path { f: op, .. } | Path::Variant (unit)
    m = re.match(r"^(.+?) \{ (.*) \}$", s)
    if m and not s.startswith("{"):
        fields = []
        for f in split_top(m.group(2)):
            k = f.index(": ")
            fields.append((f[:k].strip(), parse_operand(f[k + 2:])))
        return ("agg_named", m.group(1).strip(), fields)
    if s.endswith(")"):
        k = _match_open(s)
        if k is not None and k > 0:
            path, inner = s[:k].strip(), s[k + 1:-1]
            if re.match(r"^[\w:<>, &'\[\]();+-]+$", path) and not path.startswith("const"):
                try:
                    ops = [parse_operand(x) for x in split_top(inner)]
                    if all(o[0] != "fnitem" for o in ops):
                        return ("agg_tuple", path, ops)
                except ValueError:
                    pass
    if re.match(r"^[\w:<>, &'\[\]();+-]+$", s):
        return ("agg_unit", s)
    return ("raw", s)


def parse_stmt(l):
    """-> statement/terminator tuple"""
    if l.startswith("goto -> "):
        return ("goto", l[8:].strip())
    if l == "return":
        return ("return",)
    if l == "unreachable":
        return ("unreachable",)
    if l.startswith("resume") or l.startswith("unwind_resume") or l.startswith("terminate"):
        return ("resume",)
    if l.startswith("switchInt("):
        m = re.match(r"^switchInt\((.*)\) -> \[(.*)\]$", l)
        targets = []
        for t in split_top(m.group(2)):
            k, v = t.split(": ")
            targets.append((k.strip(), v.strip()))
        return ("switch", parse_operand(m.group(1)), targets)
    if l.startswith("assert("):
        m = re.match(r"^assert\((!?)((?:move|copy|const) [^,]*?), (\".*?\")(?:, (.*))?\) -> \[success: (bb\d+), unwind[^\]]*\]$", l)
        if not m:
            return ("raw_term", l)
        return ("assert", m.group(1) == "!", parse_operand(m.group(2)), m.group(3), m.group(5))
    if l.startswith("drop("):
        m = re.match(r"^drop\((.*)\) -> \[return: (bb\d+), unwind[^\]]*\]$", l)
        if m:
            return ("goto", m.group(2))
        return ("raw_term", l)
    if l.startswith("StorageLive(") or l.startswith("StorageDead(") or l == "nop" or l.startswith("FakeRead(") \
            or l.startswith("PlaceMention(") or l.startswith("Retag(") or l.startswith("ConstEvalCounter") \
            or l.startswith("Coverage::") or l.startswith("AscribeUserType(") or l.startswith("Deinit("):
        return ("nop",)
    m = re.match(r"^discriminant\((.*)\) = (\d+)$", l)
    if m:
        return ("setdiscr", parse_place(m.group(1)), int(m.group(2)))
    # call with destination
    mt = re.match(r"^(.*) -> (\[return: (bb\d+), unwind[^\]]*\]|unwind .*|bb\d+)$", l)
    if mt and mt.group(1).endswith(")") and " = " in mt.group(1):
        head = mt.group(1)
        k = _match_open(head)
        if k is not None:
            lhs_callee, args = head[:k], head[k + 1:-1]
            e = lhs_callee.find(" = ")
            lhs, callee = lhs_callee[:e], lhs_callee[e + 3:]
            if _looks_like_place(lhs):
                return ("call", parse_place(lhs), callee.strip(), _call_args(args), mt.group(3))
    if mt and mt.group(1).endswith(")") and " = " not in mt.group(1).split("(")[0]:
        head = mt.group(1)
        k = _match_open(head)
        if k is not None:
            return ("call", None, head[:k].strip(), _call_args(head[k + 1:-1]), mt.group(3))
    m = re.match(r"^(.*?) = (.*)$", l)
    if m and _looks_like_place(m.group(1)):
        return ("assign", parse_place(m.group(1)), parse_rvalue(m.group(2)))
    return ("raw_term", l)


def _match_open(head):
    """index of the '(' matching the final ')' of head"""
    d = 0
    i = len(head) - 1
    instr = False
    while i >= 0:
        c = head[i]
        if c == '"' and (i == 0 or head[i - 1] != "\\"):
            instr = not instr
        elif not instr:
            if c == ")":
                d += 1
            elif c == "(":
                d -= 1
                if d == 0:
                    return i
        i -= 1
    return None


def _looks_like_place(s):
    s = s.strip()
    return bool(re.match(r"^(_\d+|\(.*\))(\[.*\])?$", s)) and _balanced(s)


def _call_args(s):
    s = s.strip()
    if not s:
        return []
    return [parse_operand(x) for x in split_top(s)]
