"""Spec harness for Engine M.

A spec is a Python function `spec(io, **params)` that draws inputs from `io`, calls *real* functions
through `io.call(...)` and states goals with `io.prove(...)`.  The same function runs against

* SymIO  - inputs symbolic, calls executed over the MIR of /repo's current tree, goals decided by cvc5/z3;
* NatIO  - inputs taken from a solver model (or a test vector), calls executed natively through the
           `mrun` binary (real compiled code), goals evaluated on the concrete results (replay);
* ValIO  - inputs concrete, every call executed by *both* the MIR executor and natively and compared
           (translator validation).
"""
import os, subprocess, time, traceback
from . import symex, session
from .terms import *
from .terms import T

VERIF = os.path.dirname(os.path.dirname(os.path.dirname(os.path.abspath(__file__))))
NATIVE_DIR = os.path.join(VERIF, ".build", "native")


class NativePanic(Exception):
    pass


def flatten(v, out):
    if isinstance(v, symex.Int):
        out.append(v.t)
    elif isinstance(v, symex.Bool):
        out.append(1 if v.t else 0)
    elif isinstance(v, symex.Flt):
        out.append(v.t)
    elif isinstance(v, symex.Agg):
        for f in v.f:
            flatten(f, out)
    elif isinstance(v, symex.Enum):
        out.append(v.d)
        if not is_c(v.d):
            raise ValueError("symbolic enum in native call")
        for f in v.v.get(v.d, []):
            flatten(f, out)
    elif isinstance(v, symex.Opaque):
        pass
    else:
        raise ValueError("cannot flatten %r" % (v,))
    return out


def unflatten(shape, toks):
    """tokens (list of ints, consumed from the front) -> value"""
    if isinstance(shape, str):
        if shape == "bool":
            return symex.Bool(toks.pop(0) != 0)
        if shape == "unit":
            return symex.UNIT
        if shape == "f64":
            return symex.Flt(toks.pop(0))
        return symex.Int(toks.pop(0), shape)
    k = shape[0]
    if k == "agg":
        return symex.Agg([unflatten(s, toks) for s in shape[1]])
    if k == "ok":
        d = toks.pop(0)
        if d != 0:
            raise NativePanic("native call returned Err where the encoding has a plain value")
        return unflatten(shape[1], toks)
    if k == "result":
        d = toks.pop(0)
        if d == 0:
            return symex.Enum(0, {0: [unflatten(shape[1], toks)]}, "Result")
        kind = toks.pop(0)
        return symex.Enum(1, {1: [symex.Agg([symex.Enum(kind, {kind: []}, "ErrorKind"), symex.Opaque("msg")])]}, "Result")
    if k == "option":
        d = toks.pop(0)
        if d == 0:
            return symex.Enum(0, {0: []}, "Option")
        return symex.Enum(1, {0: [], 1: [unflatten(shape[1], toks)]}, "Option")
    if k == "enum":
        d = toks.pop(0)
        return symex.Enum(d, {d: []}, shape[1])
    raise ValueError("shape %r" % (shape,))


class Mrun:
    """one long-lived native process per profile"""

    def __init__(self, profile="dev"):
        self.profile = profile
        exe = os.path.join(NATIVE_DIR, "release" if profile == "release" else "debug", "mrun")
        if not os.path.exists(exe):
            raise RuntimeError("mrun not built: " + exe)
        self.p = subprocess.Popen([exe, "-"], stdin=subprocess.PIPE, stdout=subprocess.PIPE, text=True, bufsize=1)

    def call(self, hook, ints):
        self.p.stdin.write(hook + " " + " ".join(str(int(x)) for x in ints) + "\n")
        self.p.stdin.flush()
        line = self.p.stdout.readline().strip()
        if line.startswith("PANIC"):
            raise NativePanic(line)
        if line == "UNKNOWN_HOOK" or not line:
            raise RuntimeError("mrun: unknown hook %s / no answer" % hook)
        return [int(x) for x in line.split()]

    def close(self):
        try:
            self.p.stdin.close()
            self.p.wait(timeout=5)
        except Exception:
            self.p.kill()


def build_native(profiles=("dev", "release")):
    import kani
    ok = {}
    for prof in profiles:
        cmd = ["cargo", "build", "--offline", "--bin", "mrun", "--bin", "replay", "--target-dir", NATIVE_DIR]
        if prof == "release":
            cmd.append("--release")
        kani._prep()
        rc = subprocess.call(cmd, cwd=kani.HARNESS, stdout=subprocess.DEVNULL, stderr=subprocess.DEVNULL,
                             env=dict(os.environ, CARGO_NET_OFFLINE="true"))
        ok[prof] = (rc == 0)
    return ok


# ------------------------------------------------------------------------------------------------ IO back ends

class SymIO:
    kind = "sym"

    def __init__(self, name, mode="debug", unroll=1, timeout=120, cross_check=True, max_paths=4000, generics=None):
        self.s = session.Session(name, mode=mode, unroll=unroll, timeout=timeout, cross_check=cross_check,
                                 max_paths=max_paths, generics=generics)
        self.mode = mode

    def int(self, name, ty, lo=None, hi=None):
        return self.s.int(name, ty, lo, hi)

    def bool(self, name):
        return self.s.bool(name)

    def flt(self, name, lo, hi):
        """an f64 input holding an integer value in lo..=hi (|.| <= 2^53)"""
        v = self.s.int(name, "i64", lo, hi)
        return symex.Flt(v.t)

    def cenum(self, name, enum_name, discrs):
        return self.s.cenum(name, enum_name, discrs)

    def assume(self, c):
        self.s.assume(c)

    def ref(self, v):
        return self.s.ref(v)

    def call(self, target, args, native=None):
        return self.s.call(target, args)

    def call_named(self, suffix, args):
        """call the MIR body whose full name ends with `suffix` (private free functions, closures)"""
        return self.s.ex._exec_fn(self.s.state, self.s.ex.fn_named(suffix), list(args), 0)

    def spy(self, target):
        """record (args, return value, path condition) of every call of `target` made inside later io.call()s;
        used for compositional claims: 'f passes exactly these arguments to g', g itself being covered elsewhere"""
        f = self.s.ex.fn_by_key(*target) if isinstance(target, tuple) else self.s.ex.fn_free(target)
        return self.s.ex.spies.setdefault(f.name, [])

    def prove(self, name, goal, hyp=True):
        return self.s.prove(name, goal, hyp)

    def witness(self, name, cond=True):
        return self.s.reachable(name, cond)

    def obligations(self, prefix):
        return self.s.check_obligations(prefix)


class NatIO:
    kind = "nat"

    def __init__(self, model, profile="dev"):
        self.model = model
        self.m = Mrun(profile)
        self.goals = {}
        self.assumed_ok = True
        self.panicked = None
        self.mode = "debug" if profile == "dev" else "release"

    def int(self, name, ty, lo=None, hi=None):
        v = self.model.get(name)
        if v is None:
            v = lo if lo is not None else 0    # unconstrained in the model: any value in range
        return symex.Int(int(v), ty)

    def bool(self, name):
        return symex.Bool(bool(self.model.get(name, False)))

    def flt(self, name, lo, hi):
        v = self.model.get(name)
        return symex.Flt(int(v if v is not None else lo))

    def cenum(self, name, enum_name, discrs):
        v = self.model.get(name)
        if v is None:
            v = discrs[0]
        return symex.Enum(int(v), {int(v): []}, enum_name)

    def assume(self, c):
        if not c:
            self.assumed_ok = False

    def ref(self, v):
        return v

    def call(self, target, args, native=None):
        if native is None:
            raise RuntimeError("spec call without native binding: %r" % (target,))
        hook, shape = native[0], native[1]
        if hook == "skip":
            return shape            # intermediate value supplied by the spec; the real call happens in a later hook
        nargs = native[2] if len(native) > 2 else args
        ints = []
        for a in nargs:
            flatten(a, ints)
        try:
            toks = self.m.call(hook, ints)
        except NativePanic as e:
            self.panicked = str(e)
            raise
        return unflatten(shape, toks)

    def prove(self, name, goal, hyp=True):
        if hyp is True or hyp:
            self.goals[name] = bool(goal)
        return None

    def witness(self, name, cond=True):
        return None

    def obligations(self, prefix):
        return []

    def spy(self, target):
        return []


def run_symbolic(job_name, spec_fn, params, opts=None):
    """-> plain dict (picklable)"""
    opts = opts or {}
    t0 = time.time()
    out = {"job": job_name, "params": {k: v for k, v in params.items() if isinstance(v, (int, str, bool, float, list, tuple))},
           "queries": [], "encoded": [], "models": [], "error": None, "dump_secs": 0.0}
    try:
        io = SymIO(job_name, **opts)
        out["dump_secs"] = io.s.dump_secs
        out["tree_hash"] = io.s.tree_hash
        try:
            spec_fn(io, **params)
        except symex.NotEncodable as e:
            out["error"] = "not_encodable: %s" % e
        except symex.Diverge as e:
            out["error"] = "diverges: every path of %s panics" % e
        for q in io.s.queries:
            out["queries"].append({"name": q.name, "verdict": q.verdict, "seconds": round(q.seconds, 3),
                                   "model": q.model, "detail": q.detail, "kind": q.kind, "cross": q.cross})
        out["encoded"] = sorted(io.s.ex.encoded)
        out["models"] = sorted(x for x in io.s.ex.models_used if x)
    except Exception as e:
        out["error"] = "exception: %s\n%s" % (e, traceback.format_exc()[-1500:])
    out["wall"] = round(time.time() - t0, 2)
    return out


def replay_native(spec_fn, params, model, qname, qkind, profile):
    """-> ('reproduced'|'not_reproduced'|'panic'|'error', detail)"""
    try:
        io = NatIO(model, profile)
    except Exception as e:
        return "error", str(e)
    try:
        try:
            spec_fn(io, **params)
        except NativePanic as e:
            return "panic", str(e)
        finally:
            io.m.close()
        if not io.assumed_ok:
            return "not_reproduced", "model violates an assumption natively"
        if qname in io.goals:
            return ("reproduced", "goal false natively") if io.goals[qname] is False else ("not_reproduced", "goal true natively")
        bad = [g for g, v in io.goals.items() if v is False]
        if bad:
            # goals about internal call arguments have no native counterpart; the end-to-end goals stand in
            return "reproduced", "native goal(s) false: %s" % ", ".join(bad)
        return "not_reproduced", "goal %s not evaluated natively; all native goals true" % qname
    except Exception as e:
        # a spec that reads the Ok payload after the goal "the call succeeds" has already come out false natively
        if io.assumed_ok and io.goals.get(qname) is False:
            return "reproduced", "goal false natively (spec stopped afterwards: %s)" % e
        return "error", "%s" % e


class ValIO:
    """translator validation: each call runs through the MIR executor on concrete inputs and natively"""
    kind = "val"

    def __init__(self, vector, profile="dev", generics=None):
        self.vector = vector
        self.m = Mrun(profile)
        self.s = session.Session("val", cross_check=False, generics=generics)
        self.mismatches = []
        self.calls = 0
        self.mode = "debug"

    def int(self, name, ty, lo=None, hi=None):
        return symex.Int(int(self.vector[name]), ty)

    def bool(self, name):
        return symex.Bool(bool(self.vector[name]))

    def flt(self, name, lo, hi):
        return symex.Flt(int(self.vector[name]))

    def cenum(self, name, enum_name, discrs):
        v = int(self.vector[name])
        return symex.Enum(v, {v: []}, enum_name)

    def assume(self, c):
        pass

    def ref(self, v):
        return self.s.ref(v)

    def call(self, target, args, native=None):
        self.calls += 1
        enc = None
        enc_panic = False
        nobl = len(self.s.ex.obligations)
        try:
            enc = self.s.call(target, args)
        except symex.Diverge:
            enc_panic = True
        if any(is_c(c) and c for (_k, _l, c) in self.s.ex.obligations[nobl:]):
            enc_panic = True
        hook, shape = native[0], native[1]
        if hook == "skip":
            return enc
        nargs = native[2] if len(native) > 2 else args
        ints = []
        for a in nargs:
            flatten(self.s.ex.deref(self.s.state, a), ints)
        try:
            toks = self.m.call(hook, ints)
            nat = unflatten(shape, list(toks))
            nat_panic = False
        except NativePanic:
            nat, nat_panic = None, True
        if enc_panic != nat_panic:
            self.mismatches.append((target, ints, "panic: encoded=%s native=%s" % (enc_panic, nat_panic)))
        elif not nat_panic:
            a, b = [], []
            flatten(enc, a)
            flatten(nat, b)
            if a != b:
                self.mismatches.append((target, ints, "encoded=%r native=%r" % (a, b)))
        if nat_panic:
            raise NativePanic("both")
        return nat

    def prove(self, name, goal, hyp=True):
        return None

    def witness(self, name, cond=True):
        return None

    def obligations(self, prefix):
        return []

    def spy(self, target):
        return []


def validate(spec_fn, params, vectors, generics=None):
    """-> (calls compared, mismatches list)"""
    calls, mism = 0, []
    for vec in vectors:
        io = ValIO(vec, generics=generics)
        try:
            spec_fn(io, **params)
        except NativePanic:
            pass
        except symex.NotEncodable as e:
            mism.append(("not_encodable", str(e), vec))
        finally:
            io.m.close()
        calls += io.calls
        mism.extend(io.mismatches)
    return calls, mism
