"""Models of the core / num_traits leaf functions that the encoded crate code calls.

Each model states the documented semantics on mathematical integers with explicit range checks;
panicking behaviour (division by zero, `abs(MIN)`, `unwrap` on None ...) is emitted as a panic obligation.
The list is finite: a callee outside it (and outside the crate's MIR) makes the query `not encodable`.
"""
import re
from .terms import *
from .terms import T, INT_TYPES
from . import symex as sx

NO_MODEL = object()
LAST = [None]
LAST_CALLEE = [None]


def _sg(s):
    return sx._strip_generics(s)


def _int(ex, st, v):
    v = ex.deref(st, v)
    if isinstance(v, sx.Int):
        return v
    if isinstance(v, sx.Agg) and len(v.f) == 1 and isinstance(v.f[0], sx.Int):
        return v.f[0]     # transparent newtype (NonZero, Wrapping ...)
    raise sx.NotEncodable("expected integer, got %r" % (v,))


def _num(ex, st, v):
    v = ex.deref(st, v)
    if isinstance(v, sx.Flt):
        return v
    return _int(ex, st, v)


def _some(v, name="Option"):
    return sx.Enum(1, {0: [], 1: [v]}, name)


def _none():
    return sx.Enum(0, {0: []}, "Option")


def _opt(cond, v):
    """Some(v) if cond else None"""
    if is_c(cond):
        return _some(v) if cond else _none()
    return sx.Enum(ite(cond, 1, 0), {0: [], 1: [v]}, "Option")


def _panic(ex, st, label, cond=True):
    ex.oblige("panic", label, st.pc, cond)
    if is_c(cond) and cond:
        raise sx.Diverge(label)
    if not is_c(cond):
        st.pc.append(not_(cond))


def _panic_fp(ex, st, label, cond):
    """outside the exact-integer f64 model: recorded as an 'fpexact' obligation (inconclusive if satisfiable)"""
    ex.oblige("fpexact", label, st.pc, cond)


def _ordering(x, y):
    return sx.Enum(ite(lt(x, y), -1, ite(eq(x, y), 0, 1)), {-1: [], 0: [], 1: []}, "Ordering")


def _is_int_ty(s):
    return s.strip().lstrip("&").strip() in INT_TYPES


def try_model(ex, st, callee, args):
    c = _sg(callee)
    LAST[0] = c
    LAST_CALLEE[0] = callee
    nm = ex.ctx.name

    # ---------------------------------------------------------------- panics
    if re.match(r"^(core|std)::panicking::|^core::option::(expect|unwrap)_failed|^core::result::unwrap_failed|"
                r"^core::slice::index::|^core::str::slice_error_fail|^(panic_fmt|panic|panic_explicit|panic_display|"
                r"assert_failed|panic_nounwind|unreachable_display|expect_failed|unwrap_failed|panic_bounds_check)$|"
                r"^panic_const::|^panicking::", c) or c.endswith("::unreachable_display"):
        _panic(ex, st, "explicit panic: " + c)
    if c.startswith("core::fmt::Arguments") or c.startswith("Arguments::") or c.startswith("core::fmt::rt::"):
        return sx.Opaque("fmt")
    if c.startswith("log::") or "__private_api" in c:
        return sx.UNIT

    # ---------------------------------------------------------------- f64 restricted to exact integers (symex.Flt)
    m = re.match(r"^(?:core|std)::f64::<impl f64>::(\w+)$", c)
    if m and args and isinstance(ex.deref(st, args[0]), sx.Flt):
        meth = m.group(1)
        x = ex.deref(st, args[0]).t
        if meth == "is_finite":
            return sx.Bool(True)
        if meth in ("is_nan", "is_infinite"):
            return sx.Bool(False)
        if meth == "abs":
            return sx.Flt(nm(ite(lt(x, 0), neg(x), x), "fa"))
        if meth in ("trunc", "floor", "ceil", "round"):
            return sx.Flt(x)
        if meth == "copysign":
            y = ex.deref(st, args[1])
            if isinstance(y, sx.Flt):
                # sign of zero is not modelled: require y != 0
                _panic_fp(ex, st, "copysign with a zero sign operand (sign of zero not modelled)", eq(y.t, 0))
                ax = ite(lt(x, 0), neg(x), x)
                return sx.Flt(nm(ite(lt(y.t, 0), neg(ax), ax), "cs"))
        if meth in ("min", "max"):
            y = ex.deref(st, args[1])
            if isinstance(y, sx.Flt):
                f = lt if meth == "min" else gt
                return sx.Flt(nm(ite(f(x, y.t), x, y.t), "fm"))
        if meth == "signum":
            _panic_fp(ex, st, "signum of zero (sign of zero not modelled)", eq(x, 0))
            return sx.Flt(ite(lt(x, 0), -1, 1))
        if meth == "mul_add":
            a_, b_ = ex.deref(st, args[1]), ex.deref(st, args[2])
            if isinstance(a_, sx.Flt) and isinstance(b_, sx.Flt) and (is_c(x) or is_c(a_.t)):
                r = nm(add(mul(x, a_.t), b_.t), "fma")
                _panic_fp(ex, st, "mul_add result beyond 2^53", not_(and_(le(-sx.F64_EXACT, r), le(r, sx.F64_EXACT))))
                return sx.Flt(r)
        raise sx.NotEncodable("f64::" + meth)

    # ---------------------------------------------------------------- inherent integer methods
    m = re.match(r"^core::num::<impl ([iu]\w+)>::(\w+)$", c)
    if m:
        ty, meth = m.group(1), m.group(2)
        r = _int_method(ex, st, ty, meth, args)
        if r is not NO_MODEL:
            return r
        raise sx.NotEncodable("integer method %s::%s" % (ty, meth))
    m = re.match(r"^core::num::<impl ([iu]\w+)>::(MAX|MIN)$", c)

    # ---------------------------------------------------------------- Vec of bounded capacity (symex.VecVal)
    m = re.match(r"^(?:alloc::vec::)?Vec::(len|is_empty)$", c)
    if m and args and isinstance(ex.deref(st, args[0]), sx.VecVal):
        v = ex.deref(st, args[0])
        return sx.Int(v.n, "usize") if m.group(1) == "len" else sx.Bool(eq(v.n, 0))
    if re.match(r"^<(?:alloc::vec::)?Vec<.*> as (?:core::ops::)?Index<usize>>::index$", c) and isinstance(ex.deref(st, args[0]), sx.VecVal):
        v = ex.deref(st, args[0])
        i = _int(ex, st, args[1]).t
        _panic(ex, st, "index out of bounds (Vec)", not_(and_(le(0, i), lt(i, v.n))))
        sel = v.items[-1]
        for k in range(len(v.items) - 2, -1, -1):
            sel = sx.merge(eq(i, k), v.items[k], sel) if not is_c(eq(i, k)) else (v.items[k] if eq(i, k) else sel)
        return ex.temp_ref(st, sel)
    if re.match(r"^<(?:alloc::vec::)?Vec<.*> as (?:core::iter::)?IntoIterator>::into_iter$", c) and isinstance(ex.deref(st, args[0]), sx.VecVal):
        return ex.deref(st, args[0])
    if re.match(r"^<(?:alloc::vec::)?(?:vec::)?IntoIter<.*> as (?:core::iter::)?Iterator>::next$", c) and isinstance(ex.deref(st, args[0]), sx.VecVal):
        v = ex.deref(st, args[0])      # only the first `next` of a fresh iterator is modelled
        return _opt(gt(v.n, 0), v.items[0])
    if re.match(r"^<(?:alloc::vec::)?Vec<.*> as (?:core::convert::)?From<&\[.*; \d+\]>>::from$", c) and isinstance(ex.deref(st, args[0]), sx.Agg):
        arr = ex.deref(st, args[0])
        return sx.VecVal(arr.f, len(arr.f))
    if re.match(r"^<&(?:alloc::vec::)?Vec<.*> as (?:core::iter::)?IntoIterator>::into_iter$", c) and isinstance(ex.deref(st, args[0]), sx.VecVal):
        v = ex.deref(st, args[0])
        return sx.SliceIter(v.items, v.n, 0)
    if re.match(r"^<(?:core::slice::)?Iter<.*> as (?:core::iter::)?Iterator>::next$", c) and isinstance(ex.deref(st, args[0]), sx.SliceIter):
        it = ex.deref(st, args[0])
        if it.pos >= len(it.items):
            return _opt(False, sx.UNIT)
        some = lt(it.pos, it.n) if not isinstance(it.n, int) else it.pos < it.n
        item = ex.temp_ref(st, it.items[it.pos])
        ex.write_through(st, args[0], sx.SliceIter(it.items, it.n, it.pos + 1))
        return _opt(some, item)
    if re.match(r"^<(?:alloc::vec::)?Vec<.*> as (?:core::ops::)?Deref>::deref$", c) and isinstance(ex.deref(st, args[0]), sx.VecVal):
        return ex.temp_ref(st, ex.deref(st, args[0]))
    if re.match(r"^core::slice::<impl \[.*\]>::iter$", c) and isinstance(ex.deref(st, args[0]), sx.VecVal):
        v = ex.deref(st, args[0])
        return sx.SliceIter(v.items, v.n, 0)
    if re.match(r"^<(?:core::slice::)?Iter<.*> as (?:core::iter::)?Iterator>::enumerate$", c) and isinstance(ex.deref(st, args[0]), sx.SliceIter):
        it = ex.deref(st, args[0])
        return sx.SliceIter(it.items, it.n, it.pos, enumerate=True)
    if re.match(r"^<Enumerate<(?:core::slice::)?Iter<.*>> as (?:core::iter::)?Iterator>::find$", c) and isinstance(ex.deref(st, args[0]), sx.SliceIter):
        # first (index, &item) for which the predicate closure holds; the predicate is executed from its MIR body per item
        it = ex.deref(st, args[0])
        if not (isinstance(it.n, int) and it.n == len(it.items) and it.enumerate):
            raise sx.NotEncodable("Iterator::find over a slice of symbolic length")
        hits = []
        for k in range(it.pos, len(it.items)):
            item = sx.Agg([sx.Int(k - it.pos, "usize"), ex.temp_ref(st, it.items[k])])
            hit = ex.call_closure(st, callee, ex.temp_ref(st, sx.UNIT), [ex.temp_ref(st, item)])
            if not isinstance(hit, sx.Bool):
                raise sx.NotEncodable("find predicate result %r" % (hit,))
            hits.append(hit.t)
        if not hits:
            return _none()
        # index and value of the first hit as merged *values* (references to distinct items cannot be merged)
        idx, val = len(hits) - 1, it.items[-1]
        for k in range(len(hits) - 2, -1, -1):
            if is_c(hits[k]):
                if hits[k]:
                    idx, val = k, it.items[it.pos + k]
                continue
            idx = ite(hits[k], k, idx)
            val = sx.merge(hits[k], it.items[it.pos + k], val)
        found = or_(*hits)
        return _opt(found, sx.Agg([sx.Int(idx, "usize"), ex.temp_ref(st, val)]))
    if re.match(r"^<(?:alloc::string::)?String as (?:core::ops::)?Deref>::deref$", c):
        return sx.Opaque("str")
    if re.match(r"^<(?:builtins::core::calendar::)?Calendar as (?:core::default::)?Default>::default$", c):
        return sx.Opaque("calendar:iso")
    # the process-wide provider: LazyLock<Mutex<FsTzdbProvider>> (lock acquisition modelled as succeeding; poisoning is C20)
    if re.match(r"^<LazyLock<.*> as Deref>::deref$", c):
        return sx.Opaque("provider-mutex")
    if re.match(r"^(std::sync::)?Mutex::lock$", c):
        return sx.Enum(0, {0: [sx.Opaque("provider-guard")]}, "Result")
    if re.match(r"^<(std::sync::)?MutexGuard<.*> as Deref(Mut)?>::deref(_mut)?$", c):
        return sx.Opaque("provider")
    # ---------------------------------------------------------------- trait calls
    m = re.match(r"^<(.+) as (.+)>::(\w+)$", c)
    if m:
        ty, tr, meth = m.group(1).strip(), sx._last_seg(m.group(2)), m.group(3)
        full_tr = m.group(2)
        r = _trait_call(ex, st, ty, tr, full_tr, meth, args, callee)
        if r is not NO_MODEL:
            return r
        return NO_MODEL

    # ---------------------------------------------------------------- Option / Result / NonZero / ranges
    m = re.match(r"^(?:core::option::)?Option::(\w+)$", c)
    if m:
        return _option_method(ex, st, m.group(1), args)
    m = re.match(r"^(?:core::result::)?Result::(\w+)$", c)
    if m:
        return _result_method(ex, st, m.group(1), args)
    m = re.match(r"^(?:core::num::|std::num::)?NonZero::(\w+)$", c)
    if m:
        meth = m.group(1)
        if meth == "new":
            x = _int(ex, st, args[0])
            return _opt(ne(x.t, 0), x)
        if meth == "get":
            return _int(ex, st, args[0])
        if meth in ("new_unchecked",):
            return _int(ex, st, args[0])
        if meth == "checked_mul":
            a, b = _int(ex, st, args[0]), _int(ex, st, args[1])
            if not is_c(a.t) and not is_c(b.t):
                raise sx.NotEncodable("symbolic * symbolic (NonZero::checked_mul)")
            p = nm(mul(a.t, b.t), "p")
            return _opt(in_range(p, a.ty), sx.Int(p, a.ty))
        raise sx.NotEncodable("NonZero::" + meth)
    m = re.match(r"^(?:core::ops::)?RangeInclusive::(\w+)$", c)
    if m:
        meth = m.group(1)
        if meth == "new":
            return sx.Agg([args[0], args[1]])
        if meth == "contains":
            r = ex.deref(st, args[0])
            x = _num(ex, st, args[1])
            lo, hi = _num(ex, st, r.f[0]), _num(ex, st, r.f[1])
            return sx.Bool(and_(le(lo.t, x.t), le(x.t, hi.t)))
        raise sx.NotEncodable("RangeInclusive::" + meth)
    m = re.match(r"^(?:core::ops::)?Range::(\w+)$", c)
    if m and m.group(1) == "contains":
        r = ex.deref(st, args[0])
        x = _int(ex, st, args[1])
        lo, hi = _int(ex, st, r.f[0]), _int(ex, st, r.f[1])
        return sx.Bool(and_(le(lo.t, x.t), lt(x.t, hi.t)))

    # ---------------------------------------------------------------- crate error type (kind kept, message dropped)
    m = re.match(r"^(?:error::)?TemporalError::((?:r#)?\w+)$", c)
    if m:
        meth = m.group(1)
        kinds = {"general": 0, "type": 1, "r#type": 1, "range": 2, "syntax": 3, "assert": 4, "abrupt_end": 3}
        if meth in kinds:
            return sx.Agg([sx.Enum(kinds[meth], {kinds[meth]: []}, "ErrorKind"), sx.Opaque("msg")])
        if meth == "with_message":
            return args[0]
        if meth == "from_icu4x":
            return sx.Agg([sx.Enum(2, {2: []}, "ErrorKind"), sx.Opaque("msg")])
        return NO_MODEL
    if c.endswith("is_valid_duration") and len(args) == 10:
        # summary of the crate's IsValidDuration on exact-integer doubles (the function itself allocates a Vec and is
        # decided for all doubles by the C09 Kani harnesses): sign-uniform, |y|,|mo|,|w| < 2^32, |total| < 2^53 s
        vs = []
        for a_ in args:
            v = ex.deref(st, a_)
            while isinstance(v, sx.Agg):
                v = v.f[0]
            if not isinstance(v, sx.Flt):
                raise sx.NotEncodable("is_valid_duration on non-integral value")
            vs.append(v.t)
        pos = or_(*[gt(v, 0) for v in vs])
        neg_ = or_(*[lt(v, 0) for v in vs])
        lim32 = 1 << 32
        small = and_(*[and_(lt(v, lim32), gt(v, -lim32)) for v in vs[:3]])
        units = [86_400 * 10**9, 3_600 * 10**9, 60 * 10**9, 10**9, 10**6, 10**3, 1]
        total = 0
        for v, u_ in zip(vs[3:], units):
            total = add(total, mul(u_, v))
        lim = (1 << 53) * 10**9
        return sx.Bool(and_(not_(and_(pos, neg_)), small, lt(total, lim), gt(total, -lim)))
    # the calendar is modelled as the ISO calendar (all date arithmetic in the crate is ISO-only: the non-ISO branches
    # return "not yet implemented"); stated in the evidence of every job that reaches it
    if re.search(r"(^|::)Calendar::is_iso$", c) and args and isinstance(ex.deref(st, args[0]), sx.Opaque):
        return sx.Bool(True)
    if c in ("core::mem::drop", "drop", "core::hint::black_box"):
        return sx.UNIT
    if c in ("core::num::<impl u8>::is_ascii_digit",):
        x = _int(ex, st, args[0])
        return sx.Bool(and_(le(48, x.t), le(x.t, 57)))
    if c.startswith("num_traits::clamp") or c == "clamp":
        if all(isinstance(ex.deref(st, a), sx.Int) for a in args):
            x, lo, hi = (_int(ex, st, a) for a in args)
            return sx.Int(nm(ite(lt(x.t, lo.t), lo.t, ite(gt(x.t, hi.t), hi.t, x.t)), "cl"), x.ty)
    return NO_MODEL


def _int_method(ex, st, ty, meth, args):
    nm = ex.ctx.name
    signed = ty_range(ty)[0] < 0
    lo, hi = ty_range(ty)
    a = [_int(ex, st, x) for x in args]
    x = a[0].t if a else None
    y = a[1].t if len(a) > 1 else None

    def need_const_divisor():
        if not is_c(y):
            raise sx.NotEncodable("symbolic divisor in %s::%s" % (ty, meth))

    if meth in ("div_euclid", "rem_euclid", "checked_div_euclid", "checked_rem_euclid"):
        need_const_divisor()
        if y == 0:
            _panic(ex, st, "%s::%s by zero" % (ty, meth))
        if signed and y == -1:
            _panic(ex, st, "%s::%s overflow" % (ty, meth), eq(x, lo))
        r = ediv(x, y) if "div" in meth else emod(x, y)
        return sx.Int(nm(r, "e"), ty)
    if meth == "abs":
        if ex.mode == "debug":
            _panic(ex, st, "attempt to negate with overflow (%s::abs)" % ty, eq(x, lo))
            return sx.Int(nm(ite(lt(x, 0), neg(x), x), "abs"), ty)
        return sx.Int(nm(wrap(ite(lt(x, 0), neg(x), x), ty), "abs"), ty)
    if meth == "unsigned_abs":
        return sx.Int(nm(ite(lt(x, 0), neg(x), x), "abs"), "u" + ty[1:])
    if meth == "signum":
        return sx.Int(ite(lt(x, 0), -1, ite(eq(x, 0), 0, 1)), ty)
    if meth == "pow":
        if is_c(x, y):
            v = x ** y
            if not (lo <= v <= hi):
                _panic(ex, st, "%s::pow overflow" % ty)
            return sx.Int(v, ty)
        raise sx.NotEncodable("symbolic pow")
    if meth in ("min", "max"):
        f = lt if meth == "min" else gt
        return sx.Int(nm(ite(f(x, y), x, y), "mm"), ty)
    if meth == "clamp":
        z = a[2].t
        return sx.Int(nm(ite(lt(x, y), y, ite(gt(x, z), z, x)), "cl"), ty)
    if meth in ("is_positive", "is_negative"):
        return sx.Bool(gt(x, 0) if meth == "is_positive" else lt(x, 0))
    if meth in ("checked_add", "checked_sub", "checked_mul"):
        if meth == "checked_mul" and not is_c(x) and not is_c(y):
            raise sx.NotEncodable("symbolic * symbolic")
        e = nm({"checked_add": add, "checked_sub": sub, "checked_mul": mul}[meth](x, y), "ck")
        return _opt(in_range(e, ty), sx.Int(e, ty))
    if meth in ("wrapping_add", "wrapping_sub", "wrapping_mul", "wrapping_neg"):
        if meth == "wrapping_neg":
            return sx.Int(nm(wrap(neg(x), ty), "w"), ty)
        e = {"wrapping_add": add, "wrapping_sub": sub, "wrapping_mul": mul}[meth](x, y)
        return sx.Int(nm(wrap(e, ty), "w"), ty)
    if meth in ("saturating_add", "saturating_sub"):
        e = nm((add if meth.endswith("add") else sub)(x, y), "s")
        return sx.Int(nm(ite(lt(e, lo), lo, ite(gt(e, hi), hi, e)), "sat"), ty)
    if meth == "abs_diff":
        return sx.Int(nm(ite(lt(x, y), sub(y, x), sub(x, y)), "ad"), "u" + ty[1:])
    if meth == "is_ascii_digit":
        return sx.Bool(and_(le(48, x), le(x, 57)))
    return NO_MODEL


def _trait_call(ex, st, ty, tr, full_tr, meth, args, callee):
    nm = ex.ctx.name
    dargs = [ex.deref(st, a) for a in args]
    ints = all(isinstance(a, sx.Int) for a in dargs) and len(dargs) > 0
    bools = all(isinstance(a, sx.Bool) for a in dargs) and len(dargs) > 0

    flts = all(isinstance(a, sx.Flt) for a in dargs) and len(dargs) > 0
    if flts and tr in ("PartialOrd", "PartialEq"):
        x, y = dargs[0].t, dargs[1].t
        if meth == "partial_cmp":
            return _some(_ordering(x, y))
        if meth in ("lt", "le", "gt", "ge", "eq", "ne"):
            return sx.Bool({"lt": lt, "le": le, "gt": gt, "ge": ge, "eq": eq, "ne": ne}[meth](x, y))
    if flts and tr in ("Add", "Sub", "Mul", "Neg") and meth in ("add", "sub", "mul", "neg"):
        if meth == "neg":
            return sx.Flt(neg(dargs[0].t))
        x, y = dargs[0].t, dargs[1].t
        if meth == "mul" and not is_c(x) and not is_c(y):
            raise sx.NotEncodable("symbolic f64 * symbolic f64")
        r = nm({"add": add, "sub": sub, "mul": mul}[meth](x, y), "f")
        _panic_fp(ex, st, "f64 %s result beyond 2^53" % meth, not_(and_(le(-sx.F64_EXACT, r), le(r, sx.F64_EXACT))))
        return sx.Flt(r)
    if tr == "From" and meth == "from" and ty == "f64" and ints:
        return sx.Flt(dargs[0].t)       # lossless for every integer type that implements Into<f64>
    if tr == "Default" and meth == "default" and ty == "f64":
        return sx.Flt(0)
    if tr == "FromPrimitive" and ty == "f64" and ints and meth.startswith("from_"):
        x = dargs[0].t
        _panic_fp(ex, st, "int -> f64 beyond 2^53", not_(and_(le(-sx.F64_EXACT, x), le(x, sx.F64_EXACT))))
        return _some(sx.Flt(x))
    if tr == "FromPrimitive" and ty in INT_TYPES and flts and meth == "from_f64":
        x = dargs[0].t
        return _opt(in_range(x, ty), sx.Int(x, ty))
    if tr == "AsPrimitive" and meth == "as_" and flts:
        mt = re.match(r"^AsPrimitive<(\w+)>$", full_tr.strip())
        if mt and mt.group(1) in INT_TYPES:
            lo_, hi_ = ty_range(mt.group(1))
            x = dargs[0].t
            return sx.Int(nm(ite(lt(x, lo_), lo_, ite(gt(x, hi_), hi_, x)), "fi"), mt.group(1))
        if mt and mt.group(1) == "f64":
            return dargs[0]
    if tr == "AsPrimitive" and meth == "as_" and ints:
        mt = re.match(r"^AsPrimitive<(\w+)>$", full_tr.strip())
        if mt and mt.group(1) == "f64":
            x = dargs[0].t
            _panic_fp(ex, st, "int -> f64 beyond 2^53", not_(and_(le(-sx.F64_EXACT, x), le(x, sx.F64_EXACT))))
            return sx.Flt(x)
    if tr in ("Ord", "PartialOrd", "PartialEq") and ints:
        x, y = dargs[0].t, dargs[1].t
        if meth == "cmp":
            return _ordering(x, y)
        if meth == "partial_cmp":
            return _some(_ordering(x, y))
        if meth in ("lt", "le", "gt", "ge", "eq", "ne"):
            return sx.Bool({"lt": lt, "le": le, "gt": gt, "ge": ge, "eq": eq, "ne": ne}[meth](x, y))
        if meth in ("max", "min"):
            f = gt if meth == "max" else lt
            return sx.Int(nm(ite(f(x, y), x, y), "mm"), dargs[0].ty)
        if meth == "clamp":
            z = dargs[2].t
            _panic(ex, st, "clamp: min > max", gt(y, z))
            return sx.Int(nm(ite(lt(x, y), y, ite(gt(x, z), z, x)), "cl"), dargs[0].ty)
    if tr in ("PartialEq",) and bools and meth in ("eq", "ne"):
        r = eq(dargs[0].t, dargs[1].t) if not is_c(dargs[0].t, dargs[1].t) else dargs[0].t == dargs[1].t
        return sx.Bool(r if meth == "eq" else not_(r))
    if tr in ("PartialEq", "PartialOrd", "Ord") and len(dargs) == 2 and all(isinstance(a, sx.Enum) for a in dargs) \
            and all(all(len(f) == 0 for f in a.v.values()) for a in dargs):
        x, y = dargs[0].d, dargs[1].d     # field-less enums compare by discriminant
        if meth in ("eq", "ne"):
            r = eq(x, y)
            return sx.Bool(r if meth == "eq" else not_(r))
        if meth == "cmp":
            return _ordering(x, y)
        if meth == "partial_cmp":
            return _some(_ordering(x, y))
        if meth in ("lt", "le", "gt", "ge"):
            return sx.Bool({"lt": lt, "le": le, "gt": gt, "ge": ge}[meth](x, y))
        if meth in ("max", "min"):
            f = gt if meth == "max" else lt
            c = f(x, y)
            return sx.merge(c, dargs[0], dargs[1]) if not is_c(c) else (dargs[0] if c else dargs[1])
    if tr == "PartialEq" and meth in ("eq", "ne") and len(dargs) == 2 and all(isinstance(a, sx.Enum) for a in dargs) \
            and dargs[0].name == "Option" and dargs[1].name == "Option":
        a, b = dargs
        pa, pb = a.v.get(1, [None])[0], b.v.get(1, [None])[0]
        inner = True
        if pa is not None and pb is not None:
            if isinstance(pa, sx.Int) and isinstance(pb, sx.Int):
                inner = eq(pa.t, pb.t)
            elif isinstance(pa, sx.Enum) and isinstance(pb, sx.Enum):
                inner = eq(pa.d, pb.d)
            else:
                return NO_MODEL
        r = and_(eq(a.d, b.d), or_(eq(a.d, 0), inner))
        return sx.Bool(r if meth == "eq" else not_(r))

    if tr == "PartialOrd" and meth in ("lt", "le", "gt", "ge") and len(dargs) == 2 \
            and all(isinstance(a, sx.Enum) and a.name == "Option" for a in dargs):
        a, b = dargs
        pa, pb = a.v.get(1, [None])[0], b.v.get(1, [None])[0]
        if (pa is None or isinstance(pa, sx.Int)) and (pb is None or isinstance(pb, sx.Int)):
            # None < Some(_); Some(x) vs Some(y) by value
            xa = pa.t if pa is not None else 0
            xb = pb.t if pb is not None else 0
            both = and_(eq(a.d, 1), eq(b.d, 1))
            f = {"lt": lt, "le": le, "gt": gt, "ge": ge}[meth]
            return sx.Bool(ite(both, f(xa, xb), f(a.d, b.d)))
    if tr in ("From", "Into") and meth in ("from", "into"):
        a = dargs[0]
        mt = re.match(r"^(?:From|Into)<(.+)>$", full_tr.strip())
        other = mt.group(1).strip() if mt else None
        target = ty if tr == "From" else other
        if isinstance(a, sx.Int):
            if target == "f64":
                return sx.Flt(a.t)              # std only provides lossless int -> f64 From/Into (<= 32 bits)
            if target in INT_TYPES:
                return sx.Int(a.t, target)      # std only provides lossless integer From/Into
            if target and target.startswith("NonZero<") or (target and "NonZero" in target):
                inner = re.search(r"NonZero<(\w+)>", target)
                return sx.Int(a.t, inner.group(1)) if inner else a
            return NO_MODEL
        if isinstance(a, sx.Bool) and target in INT_TYPES:
            return sx.Int(ite(a.t, 1, 0), target)
        if ty == other or (other and sx._last_seg(ty) == sx._last_seg(other)):
            return a
        return NO_MODEL
    if tr == "TryFrom" and meth == "try_from" and ints and ty in INT_TYPES:
        x = dargs[0].t
        ok = in_range(x, ty)
        v = sx.Int(x, ty)
        if is_c(ok):
            return sx.Enum(0, {0: [v]}, "Result") if ok else sx.Enum(1, {1: [sx.Opaque("TryFromIntError")]}, "Result")
        return sx.Enum(ite(ok, 0, 1), {0: [v], 1: [sx.Opaque("TryFromIntError")]}, "Result")

    if tr == "Try" and meth == "branch":
        r = dargs[0]
        if isinstance(r, sx.Enum) and r.name == "Result":
            v = {}
            if 0 in r.v:
                v[0] = list(r.v[0])
            if 1 in r.v:
                v[1] = [sx.Enum(1, {1: list(r.v[1])}, "Result")]
            return sx.Enum(r.d, v, "ControlFlow")
        if isinstance(r, sx.Enum) and r.name == "Option":
            v = {1: [sx.Enum(0, {0: []}, "Option")]}
            if 1 in r.v:
                v[0] = list(r.v[1])
            # Option: Some(1) -> Continue(0), None(0) -> Break(1)
            return sx.Enum(sub(1, r.d) if not is_c(r.d) else 1 - r.d, v, "ControlFlow")
        raise sx.NotEncodable("Try::branch on %r" % (r,))
    if tr == "FromResidual" and meth == "from_residual":
        r = dargs[0]
        if isinstance(r, sx.Enum) and r.name == "Result":
            return sx.Enum(1, {1: list(r.v.get(1, [sx.Opaque("err")]))}, "Result")
        if isinstance(r, sx.Enum) and r.name == "Option":
            if ty.startswith("Result") or ty.startswith("core::result::Result"):
                raise sx.NotEncodable("Option residual into Result")
            return sx.Enum(0, {0: []}, "Option")
        raise sx.NotEncodable("from_residual on %r" % (r,))

    if tr == "Neg" and meth == "neg" and ints:
        x, t = dargs[0].t, dargs[0].ty
        lo = ty_range(t)[0]
        if ex.mode == "debug":
            _panic(ex, st, "attempt to negate with overflow", eq(x, lo))
            return sx.Int(nm(neg(x), "n"), t)
        return sx.Int(nm(wrap(neg(x), t), "n"), t)
    if tr in ("Add", "Sub", "Mul", "Div", "Rem") and ints and meth in ("add", "sub", "mul", "div", "rem"):
        x, y, t = dargs[0].t, dargs[1].t, dargs[0].ty
        lo, hi = ty_range(t)
        if meth in ("div", "rem"):
            if not is_c(y):
                raise sx.NotEncodable("symbolic divisor")
            if y == 0:
                _panic(ex, st, "attempt to divide by zero")
            if lo < 0 and y == -1:
                _panic(ex, st, "attempt to divide with overflow", eq(x, lo))
            if lo < 0:
                return sx.Int(nm(tdiv(x, y) if meth == "div" else trem(x, y), "q"), t)
            return sx.Int(nm(ediv(x, y) if meth == "div" else emod(x, y), "q"), t)
        if meth == "mul" and not is_c(x) and not is_c(y):
            raise sx.NotEncodable("symbolic * symbolic")
        e = nm({"add": add, "sub": sub, "mul": mul}[meth](x, y), "a")
        if ex.mode == "debug":
            _panic(ex, st, "attempt to %s with overflow" % meth, not_(in_range(e, t)))
            return sx.Int(e, t)
        return sx.Int(nm(wrap(e, t), "w"), t)
    if tr == "Not" and meth == "not" and bools:
        return sx.Bool(not_(dargs[0].t))
    if tr == "Clone" and meth == "clone":
        return dargs[0]
    if tr == "PartialEq" and meth in ("eq", "ne") and len(dargs) == 2 and isinstance(dargs[0], sx.Flt) and isinstance(dargs[1], sx.Flt):
        r = eq(dargs[0].t, dargs[1].t)
        return sx.Bool(r if meth == "eq" else not_(r))
    if tr == "Default" and meth == "default":
        if ty in INT_TYPES:
            return sx.Int(0, ty)
        if ty == "bool":
            return sx.Bool(False)
        return NO_MODEL

    # ---------------------------------------------------------------- num_traits
    if tr == "NumCast" and meth == "from" and ints and ty in INT_TYPES:
        x = dargs[0].t
        return _opt(in_range(x, ty), sx.Int(x, ty))
    if tr == "FromPrimitive" and re.match(r"^from_[iu]\d+$|^from_[iu]size$", meth) and ints and ty in INT_TYPES:
        x = dargs[0].t
        return _opt(in_range(x, ty), sx.Int(x, ty))
    if tr == "ToPrimitive" and re.match(r"^to_([iu]\d+|[iu]size)$", meth) and ints:
        t2 = meth[3:]
        x = dargs[0].t
        return _opt(in_range(x, t2), sx.Int(x, t2))
    if tr == "AsPrimitive" and meth == "as_" and ints:
        mt = re.match(r"^AsPrimitive<(\w+)>$", full_tr.strip())
        if mt and mt.group(1) in INT_TYPES:
            return sx.Int(nm(wrap(dargs[0].t, mt.group(1)), "as"), mt.group(1))
    if tr == "Signed" and ints:
        x, t = dargs[0].t, dargs[0].ty
        if meth == "abs":
            return _int_method(ex, st, t, "abs", [dargs[0]])
        if meth == "signum":
            return sx.Int(ite(lt(x, 0), -1, ite(eq(x, 0), 0, 1)), t)
        if meth in ("is_positive", "is_negative"):
            return sx.Bool(gt(x, 0) if meth == "is_positive" else lt(x, 0))
    if tr == "Euclid" and ints:
        x, y, t = dargs[0].t, dargs[1].t, dargs[0].ty
        if not is_c(y):
            raise sx.NotEncodable("symbolic divisor (Euclid)")
        if y == 0:
            _panic(ex, st, "Euclid::%s by zero" % meth)
        if meth == "div_euclid":
            return sx.Int(nm(ediv(x, y), "e"), t)
        if meth == "rem_euclid":
            return sx.Int(nm(emod(x, y), "e"), t)
        if meth == "div_rem_euclid":
            return sx.Agg([sx.Int(nm(ediv(x, y), "e"), t), sx.Int(nm(emod(x, y), "e"), t)])
    if tr in ("Zero", "ConstZero") and meth in ("zero",) and ty in INT_TYPES:
        return sx.Int(0, ty)
    if tr == "Zero" and meth == "is_zero" and ints:
        return sx.Bool(eq(dargs[0].t, 0))
    if tr == "RangeBounds" and meth == "contains":
        r = dargs[0]
        x = _int(ex, st, args[1])
        if isinstance(r, sx.Agg) and len(r.f) >= 2:
            lo_, hi_ = _int(ex, st, r.f[0]), _int(ex, st, r.f[1])
            incl = "RangeInclusive" in ty
            return sx.Bool(and_(le(lo_.t, x.t), (le if incl else lt)(x.t, hi_.t)))
    return NO_MODEL


def _option_method(ex, st, meth, args):
    o = ex.deref(st, args[0])
    if not isinstance(o, sx.Enum):
        raise sx.NotEncodable("Option::%s on %r" % (meth, o))
    is_some = eq(o.d, 1)
    payload = o.v.get(1, [None])[0]
    if meth == "is_some":
        return sx.Bool(is_some)
    if meth == "is_none":
        return sx.Bool(not_(is_some))
    if meth in ("unwrap", "expect"):
        _panic(ex, st, "Option::%s on None" % meth, not_(is_some))
        if payload is None:
            raise sx.Diverge("unwrap of None")
        return payload
    if meth in ("and_then", "map") and len(args) == 2 and "{closure@" in (LAST_CALLEE[0] or ""):
        # closure executed from its own MIR body under the extra path condition `is_some`
        if payload is None or (is_c(is_some) and not is_some):
            return _none()
        n = len(st.pc)
        if not is_c(is_some):
            st.pc.append(is_some)
        inner = ex.call_closure(st, LAST_CALLEE[0], args[1], [payload])
        if not is_c(is_some):
            st.pc[n:] = [implies(is_some, x) for x in st.pc[n + 1:]]
        if meth == "map":
            return _opt(is_some, inner)
        if not isinstance(inner, sx.Enum):
            raise sx.NotEncodable("Option::and_then closure result %r" % (inner,))
        v = {0: []}
        if 1 in inner.v:
            v[1] = inner.v[1]
        return sx.Enum(ite(and_(is_some, eq(inner.d, 1)), 1, 0), v, "Option")
    if meth in ("as_ref", "as_mut"):
        # Option<&T> over the same payload (a reference into a by-value payload is the payload in this value model)
        v = {0: []}
        if payload is not None:
            v[1] = [ex.temp_ref(st, payload)]
        return sx.Enum(o.d, v, "Option")
    if meth == "unwrap_or":
        d = args[1]
        if payload is None:
            return d
        return d if (is_c(is_some) and not is_some) else (payload if is_c(is_some) else sx.merge(is_some, payload, d))
    if meth == "unwrap_or_default":
        if isinstance(payload, sx.Int):
            return sx.Int(ite(is_some, payload.t, 0), payload.ty)
        mt = re.match(r"^(?:core::option::)?Option::<(.+)>::unwrap_or_default$", (LAST_CALLEE[0] or "").strip())
        if mt:
            dflt = ex.call_path(st, "<%s as Default>::default" % mt.group(1), [])
            if payload is None or (is_c(is_some) and not is_some):
                return dflt
            return payload if (is_c(is_some) and is_some) else sx.merge(is_some, payload, dflt)
        raise sx.NotEncodable("unwrap_or_default")
    if meth == "map" and len(args) == 2 and re.search(r"\{(?!closure@)[\w:<>]+\}>$", (LAST_CALLEE[0] or "").strip()):
        # Option::map(function item): the named function applied to the payload under the path condition `is_some`
        path = re.search(r"\{((?!closure@)[\w:<>]+)\}>$", LAST_CALLEE[0].strip()).group(1)
        if payload is None or (is_c(is_some) and not is_some):
            return _none()
        n = len(st.pc)
        if not is_c(is_some):
            st.pc.append(is_some)
        inner = ex.call_path(st, path, [payload])
        if not is_c(is_some):
            st.pc[n:] = [implies(is_some, x) for x in st.pc[n + 1:]]
        return _opt(is_some, inner)
    if meth == "transpose":
        # Option<Result<T, E>> -> Result<Option<T>, E>
        if payload is None or (is_c(is_some) and not is_some):
            return sx.Enum(0, {0: [_none()]}, "Result")
        if not isinstance(payload, sx.Enum):
            raise sx.NotEncodable("Option::transpose of %r" % (payload,))
        v = {0: [sx.Enum(ite(is_some, 1, 0), {0: [], 1: list(payload.v.get(0, [sx.UNIT]))}, "Option")]}
        if 1 in payload.v:
            v[1] = payload.v[1]
        return sx.Enum(ite(is_some, payload.d, 0), v, "Result")
    if meth == "ok_or":
        e = args[1]
        v = {1: [e]}
        if payload is not None:
            v[0] = [payload]
        # Some(1) -> Ok(0); None(0) -> Err(1)
        return sx.Enum(ite(is_some, 0, 1), v, "Result")
    if meth == "ok_or_else":
        v = {1: [sx.Opaque("err")]}
        if payload is not None:
            v[0] = [payload]
        return sx.Enum(ite(is_some, 0, 1), v, "Result")
    raise sx.NotEncodable("Option::" + meth)


def _result_method(ex, st, meth, args):
    r = ex.deref(st, args[0])
    if isinstance(r, sx.Opaque) and r.tag.startswith("ret:") and meth in ("map", "map_err", "and_then"):
        # post-processing of an uninterpreted call's result (wiring checks): a different, still uninterpreted value
        return sx.Opaque("post:%s:%s" % (meth, r.tag))
    if not isinstance(r, sx.Enum):
        raise sx.NotEncodable("Result::%s on %r" % (meth, r))
    is_ok = eq(r.d, 0)
    if meth == "is_ok":
        return sx.Bool(is_ok)
    if meth == "is_err":
        return sx.Bool(not_(is_ok))
    if meth in ("unwrap", "expect"):
        _panic(ex, st, "Result::%s on Err" % meth, not_(is_ok))
        if 0 not in r.v:
            raise sx.Diverge("unwrap of Err")
        return r.v[0][0]
    if meth == "ok":
        v = {0: []}
        if 0 in r.v:
            v[1] = [r.v[0][0]]
        return sx.Enum(ite(is_ok, 1, 0), v, "Option")
    if meth == "map" and len(args) == 2 and re.search(r"\{(?:core::option::)?Option::<[^{}]*>::Some\}>$", (LAST_CALLEE[0] or "").strip()):
        # Result::map(Some)
        v = dict(r.v)
        if 0 in v:
            v[0] = [_some(r.v[0][0])]
        return sx.Enum(r.d, v, "Result")
    if meth == "map" and len(args) == 2:
        v = dict(r.v)
        if 0 in v:
            # closure applied to the Ok payload (executed from its own MIR body)
            v[0] = [ex.call_closure(st, LAST_CALLEE[0], args[1], [r.v[0][0]])]
        return sx.Enum(r.d, v, "Result")
    if meth in ("map_err",):
        v = dict(r.v)
        if 1 in v:
            v[1] = [sx.Opaque("err")]
        return sx.Enum(r.d, v, "Result")
    raise sx.NotEncodable("Result::" + meth)
