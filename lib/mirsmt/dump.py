"""MIR dump of /repo's current working tree (regenerated whenever the tree's content hash changes)."""
import os, hashlib, subprocess, glob, time

VERIF = os.path.dirname(os.path.dirname(os.path.dirname(os.path.abspath(__file__))))
# MIRSMT_ROOT (development only): probe a scratch copy of the repository without disturbing the dumps of running checks
ROOT = os.environ.get("MIRSMT_ROOT", "/repo")
OUT = os.path.join(VERIF, ".build", "mir" if ROOT == "/repo" else "mir-dev")
FEATURES = "compiled_data,verif_hooks"


def tree_hash(root=ROOT):
    h = hashlib.sha256()
    files = sorted(glob.glob(os.path.join(root, "src", "**", "*.rs"), recursive=True))
    files += [os.path.join(root, "Cargo.toml"), os.path.join(root, "Cargo.lock")]
    for p in files:
        h.update(p.encode())
        with open(p, "rb") as f:
            h.update(f.read())
    return h.hexdigest()


def get_dump(debug_assertions=True, root=ROOT):
    """-> (path, seconds spent, tree hash). debug_assertions selects the cfg(debug_assertions) code."""
    os.makedirs(OUT, exist_ok=True)
    th = tree_hash(root)
    tag = "dbg" if debug_assertions else "rel"
    path = os.path.join(OUT, "dump-%s-%s.mir" % (tag, th[:16]))
    if os.path.exists(path) and os.path.getsize(path) > 100000:
        return path, 0.0, th
    for old in glob.glob(os.path.join(OUT, "dump-%s-*.mir" % tag)):
        os.remove(old)
    t0 = time.time()
    os.utime(os.path.join(root, "src", "lib.rs"))
    env = dict(os.environ, CARGO_TARGET_DIR=os.path.join(OUT, "target-" + tag), CARGO_NET_OFFLINE="true")
    cmd = ["cargo", "+nightly", "rustc", "--offline", "--lib", "--no-default-features", "--features", FEATURES,
           "--", "-Zunpretty=mir", "-C", "debug-assertions=%s" % ("on" if debug_assertions else "off"),
           "-C", "overflow-checks=on"]
    with open(path + ".tmp", "w") as f, open(path + ".err", "w") as e:
        rc = subprocess.call(cmd, cwd=root, stdout=f, stderr=e, env=env)
    if rc != 0 or os.path.getsize(path + ".tmp") < 100000:
        raise RuntimeError("MIR dump failed (rc=%d), see %s.err" % (rc, path))
    os.rename(path + ".tmp", path)
    return path, time.time() - t0, th
