#!/usr/bin/env python3
"""Regenerates /verif/MANIFEST.json from lib/props.py (claimed checks) and lib/not_applicable.json."""
import json, os, sys
HERE = os.path.dirname(os.path.abspath(__file__))
sys.path.insert(0, HERE)
import props

VERIF = os.path.dirname(HERE)
na = json.load(open(os.path.join(HERE, "not_applicable.json")))
checks = []
for pid in sorted(props.PROPS):
    c = props.PROPS[pid]
    if not os.path.exists(os.path.join(VERIF, "evidence", "%s.json" % pid)):
        continue     # a check is only registered once it has run clean on the unchanged tree and left evidence
    engines = []
    if c.get("m"):
        engines.append("M: MIR->SMT-LIB symbolic execution of the real functions, decided by cvc5 (z3 cross-check)")
    if c.get("k"):
        engines.append("K: Kani/CBMC bounded model checking of harnesses over the compiled crate")
    checks.append({
        "property_id": pid,
        "quick_cmd": "./check %s --tier quick" % pid,
        "thorough_cmd": "./check %s --tier thorough" % pid,
        "evidence_file": "/verif/evidence/%s.json" % pid,
        "replay_cmd_template": "./check %s --replay {path}" % pid,
        "engine": " + ".join(e.split(":")[0] for e in engines),
        "level_claimed": {
            "category": "model_checking",
            "text": c.get("level_text", "Solver verdicts (unsat = holds for every input inside the stated bounds) over an encoding "
                                        "regenerated from /repo's working tree on every run; counterexamples replayed natively."),
            "design_ref": "DESIGN.md section 3, %s" % pid,
        },
        "level_note": c.get("level_note", "bounds: " + str(c.get("bounds", {}).get("all", c.get("bounds", {}))) +
                            " | outside: " + c.get("outside", "")),
        "technique": "solver-based checking of the real code: " + "; ".join(engines),
    })
claimed = {c["property_id"] for c in checks}
man = {
    "version": 1,
    "setup_cmd": "./setup.sh",
    "hooks": {
        "guard": "cargo feature verif_hooks",
        "enable": "harness crate depends on temporal_rs with features [compiled_data, verif_hooks]; the MIR dump is taken with --no-default-features --features compiled_data,verif_hooks",
        "baseline_off_cmd": "cd /repo && cargo test --workspace --no-fail-fast --offline",
        "source_commits": json.load(open(os.path.join(HERE, "hook_commits.json"))),
        "add_only": True,
    },
    "engines": [
        {"name": "mirsmt (Engine M)", "path": "/verif/lib/mirsmt", "serves_properties": sorted(p for p in props.PROPS if props.PROPS[p].get("m")),
         "kind_free_text": "symbolic executor over rustc's MIR text dump of /repo -> SMT-LIB Int/Bool; cvc5 primary, z3 cross-check; native replay via harness/src/bin/mrun.rs"},
        {"name": "Kani harness crate (Engine K)", "path": "/verif/harness", "serves_properties": sorted(p for p in props.PROPS if props.PROPS[p].get("k")),
         "kind_free_text": "#[kani::proof] harnesses (cargo kani, CBMC 6.11 + CaDiCaL) over symbolic inputs; native replay via harness/src/bin/replay.rs"},
    ],
    "checks": checks,
    "notes": "Exit 0 = held on everything explored; 1 = VIOLATION (natively reproduced counterexample not listed in KNOWN_FINDINGS.json); "
             "2 = inconclusive (timeout/OOM/solver error/non-reproducing counterexample).",
    "not_applicable": [x for x in na if x["property_id"] not in claimed],
}
json.dump(man, open(os.path.join(VERIF, "MANIFEST.json"), "w"), indent=1)
print("MANIFEST.json: %d checks, %d not_applicable" % (len(checks), len(man["not_applicable"])))
