#!/usr/bin/env python3
"""seed_meta.py <seed-id> <property> <detected: yes|no|partial> <by which check labels / note>"""
import sys, json, os, re
sid, pid, det, note = sys.argv[1], sys.argv[2], sys.argv[3], sys.argv[4]
d = "/verif/seeded/%s" % sid
readme = open(os.path.join(d, "README.md")).read()
confirm = ""
for l in open("/verif/seeded/confirm_all.log"):
    if ("seed=seed-%s " % sid) in l:
        confirm = l.strip()
meta = {
    "seed": sid, "breaks_property": pid,
    "origin": "independent sub-agent given only the property text and its own scratch worktree",
    "needs_to_manifest": re.sub(r"\s+", " ", readme)[:1500],
    "confirmed_by_me": {"command": "/verif/lib/confirm_seed.sh (fresh worktree: apply patch, cargo test --workspace passes, demo fails; clean tree: demo passes)",
                        "result": confirm},
    "check_run": "lib/seedtest.sh /verif/seeded/%s %s  (git apply in /repo, ./check %s, git checkout -- .)" % (sid, pid, pid),
    "detected": det, "detected_by": note,
}
json.dump(meta, open(os.path.join(d, "meta.json"), "w"), indent=1)
print("wrote", d)
