#!/bin/bash
# run every registered check serially on the current /repo tree; one log per property under .build/runall/
cd /verif
mkdir -p .build/runall
TIER=${1:-quick}
shift
for p in "$@"; do
  s=$(date +%s)
  ./check $p --tier $TIER > .build/runall/$p-$TIER.log 2>&1
  rc=$?
  echo "$p $TIER rc=$rc $(( $(date +%s) - s ))s $(tail -1 .build/runall/$p-$TIER.log)" >> .build/runall/summary.txt
done
