#!/bin/bash
# usage: lib/ktry.sh <mod::harness> [timeout_s] [slot]  -- run one Kani harness in a scratch target dir, report time / verdict
H="$1"; T="${2:-600}"; SLOT="${3:-1}"
export CARGO_NET_OFFLINE=true
TD=/verif/.build/k-try$SLOT
[ -d $TD ] || cp -a /verif/.build/k0 $TD
cd /verif/harness && cp -n /repo/Cargo.lock Cargo.lock 2>/dev/null
START=$(date +%s)
( ulimit -v 14680064; timeout $T cargo kani -Z stubbing --target-dir $TD --exact --harness "$H" > /tmp/ktry-$SLOT.log 2>&1 )
RC=$?
END=$(date +%s)
echo "$H rc=$RC wall=$((END-START))s $(grep -E 'VERIFICATION:-|Verification Time|cover properties satisfied|failed \(' /tmp/ktry-$SLOT.log | tr '\n' ' ')"
grep -E "Failed Checks" /tmp/ktry-$SLOT.log | head -5
ps -eo pid,args | grep "cbmc .*k-try$SLOT" | grep -v grep | awk '{print $1}' | xargs -r kill -9 2>/dev/null
