#!/bin/bash
# usage: lib/seedtest.sh <seed-dir> <PID> [extra check args]   -- applies the patch to /repo, runs the check, reverts
SEED="$1"; PID="$2"; shift 2
cd /repo || exit 9
if ! git diff --quiet; then echo "REPO DIRTY - abort"; exit 9; fi
git apply "$SEED/patch.diff" || { echo "patch does not apply"; exit 9; }
cd /verif
./check "$PID" "$@" > "/verif/.build/seedrun-$(basename $SEED)-$PID.log" 2>&1
rc=$?
cd /repo && git checkout -- . 
echo "seed=$(basename $SEED) pid=$PID exit=$rc"
grep -E "^VIOLATION|^KNOWN|^INCONCLUSIVE|tier=" "/verif/.build/seedrun-$(basename $SEED)-$PID.log" | cut -c1-220 | head -8
