"""Engine K driver: cargo-kani over /verif/harness (which path-depends on /repo's working tree).

One `cargo kani -j N --output-format terse` invocation per check; failing harnesses are re-run
alone with concrete playback, the byte vectors are replayed natively (dev + release) and only
a natively reproducing failure becomes a violation.
"""
import os, re, subprocess, time, json, shutil, signal, hashlib

VERIF = os.path.dirname(os.path.dirname(os.path.abspath(__file__)))
HARNESS = os.path.join(VERIF, "harness")
BUILD = os.path.join(VERIF, ".build")
ENV = dict(os.environ, CARGO_NET_OFFLINE="true")
MEM_KB = 14 * 1024 * 1024  # ulimit -v per process tree member (CBMC)


def _prep():
    os.makedirs(BUILD, exist_ok=True)
    # the harness crate resolves against /repo's lock file (offline); cargo appends our own package
    src = "/repo/Cargo.lock"
    dst = os.path.join(HARNESS, "Cargo.lock")
    if not os.path.exists(dst) or os.path.getmtime(dst) < os.path.getmtime(src):
        shutil.copy(src, dst)


def _run(cmd, log, timeout, cwd=HARNESS, env=None, mem_kb=None):
    """Run in its own process group with a memory cap; kill the whole group on timeout."""
    t0 = time.time()
    with open(log, "w") as f:
        p = subprocess.Popen(
            ["bash", "-c", "ulimit -v %d; exec \"$@\"" % (mem_kb or MEM_KB), "_"] + cmd,
            stdout=f, stderr=subprocess.STDOUT, cwd=cwd, env=env or ENV,
            preexec_fn=os.setsid)
        try:
            rc = p.wait(timeout=timeout)
            timed_out = False
        except subprocess.TimeoutExpired:
            timed_out = True
            rc = -9
        finally:
            try:
                os.killpg(p.pid, signal.SIGKILL)
            except ProcessLookupError:
                pass
    return rc, timed_out, time.time() - t0


BLOCK_START = re.compile(r"^Thread (\d+): ?$")
CHECKING = re.compile(r"^(?:Thread (\d+): )?Checking harness (\S+?)\.\.\.")


def parse_terse(text, harnesses):
    """-> {harness: {status, failed_checks[], n_checks, n_failed, n_unreach, covers_sat, covers_total, time}}"""
    res = {}
    cur_by_thread = {}
    lines = text.splitlines()
    i = 0
    cur = None
    thread = "0"
    while i < len(lines):
        l = lines[i]
        m = CHECKING.match(l)
        if m:
            thread = m.group(1) or "0"
            h = m.group(2).split("::")[-1]
            cur_by_thread[thread] = h
            res.setdefault(h, {"status": "UNKNOWN", "failed_checks": [], "stub_ok": False})
            i += 1
            continue
        if "- Stub: alloc :: fmt :: format" in l:
            mt = re.match(r"^Thread (\d+):", l)
            t = mt.group(1) if mt else thread
            if t in cur_by_thread:
                res[cur_by_thread[t]]["stub_ok"] = True
        m = BLOCK_START.match(l)
        if m:
            thread = m.group(1)
        if l.startswith("VERIFICATION RESULT:") or l.startswith("SUMMARY:"):
            h = cur_by_thread.get(thread)
            r = res.get(h)
            j = i + 1
            while j < len(lines) and not lines[j].startswith("Verification Time:"):
                x = lines[j]
                mm = re.match(r"^ \*\* (\d+) of (\d+) failed(?: \((.*)\))?", x)
                if mm and r is not None:
                    r["n_failed"] = int(mm.group(1)); r["n_checks"] = int(mm.group(2))
                    mu = re.search(r"(\d+) unreachable", mm.group(3) or "")
                    r["n_unreach"] = int(mu.group(1)) if mu else 0
                mm = re.match(r"^ \*\* (\d+) of (\d+) cover properties satisfied(?: \((\d+) unreachable\))?", x)
                if mm and r is not None:
                    # covers that sit in code unreachable for this instantiation (constant harness parameters) do not count
                    r["covers_sat"] = int(mm.group(1)); r["covers_total"] = int(mm.group(2)) - int(mm.group(3) or 0)
                mm = re.match(r"^Failed Checks: (.*)$", x)
                if mm and r is not None:
                    r["failed_checks"].append(mm.group(1).strip())
                mm = re.match(r"^VERIFICATION:- (\w+)", x)
                if mm and r is not None:
                    r["status"] = mm.group(1)
                j += 1
            if j < len(lines) and r is not None:
                mt = re.match(r"^Verification Time: ([\d.]+)s", lines[j])
                if mt:
                    r["time"] = float(mt.group(1))
            i = j
        i += 1
    for h in harnesses:
        res.setdefault(h, {"status": "NOT_RUN", "failed_checks": []})
    return res


def target_dir(pid):
    """one Kani target dir per property (checks may run concurrently); seeded from the shared k0 build if present"""
    tdir = os.path.join(BUILD, "k-" + pid)
    base = os.path.join(BUILD, "k0")
    if not os.path.exists(tdir) and os.path.exists(base):
        subprocess.call(["cp", "-a", base, tdir])
    return tdir


def run_harnesses(harnesses, jobs, per_harness_timeout, tag):
    """Run the given harness names. Returns (results, log_path, wall)."""
    _prep()
    tdir = target_dir(tag.split("-")[0])
    log = os.path.join(BUILD, "kani-%s.log" % tag)
    cmd = ["cargo", "kani", "-Z", "stubbing", "-Z", "unstable-options",
           "--harness-timeout", "%ds" % per_harness_timeout,
           "-j", str(jobs), "--output-format", "terse", "--target-dir", tdir, "--exact"]
    for h in harnesses:
        cmd += ["--harness", h]
    # overall cap: compile + ceil(n/jobs) rounds
    rounds = (len(harnesses) + jobs - 1) // jobs
    rc, to, wall = _run(cmd, log, 600 + rounds * (per_harness_timeout + 30))
    text = open(log, errors="replace").read()
    res = parse_terse(text, harnesses)
    if "error: could not compile" in text or "error[E" in text:
        for h in harnesses:
            res[h]["status"] = "COMPILE_ERROR"
    if to:
        for h in harnesses:
            if res[h]["status"] in ("UNKNOWN", "NOT_RUN"):
                res[h]["status"] = "TIMEOUT"
    for h in harnesses:
        if res[h]["status"] == "UNKNOWN":
            # started but no verdict printed: per-harness timeout or CBMC crash / OOM
            res[h]["status"] = "TIMEOUT_OR_CRASH"
    return res, log, wall


VEC = re.compile(r"^\s*vec!\[([0-9, ]*)\],?\s*$")


def playback(harness, timeout, tag):
    """Re-run one harness with concrete playback (regular format).
    -> list of {kind: 'assertion'|'cover'|..., label, vals:[[bytes]]}, details {check name -> (status, desc)}"""
    _prep()
    tdir = target_dir(tag.split("-")[0])
    log = os.path.join(BUILD, "kani-pb-%s-%s.log" % (tag, harness.split("::")[-1]))
    cmd = ["cargo", "kani", "-Z", "stubbing", "-Z", "concrete-playback", "--concrete-playback=print",
           "--target-dir", tdir, "--exact", "--harness", harness]
    # a single harness: the trace that kani-driver post-processes can be large, so the cap is higher than for the -j runs
    rc, to, wall = _run(cmd, log, timeout, mem_kb=40 * 1024 * 1024)
    text = open(log, errors="replace").read()
    tests = []
    # regular-format check list
    checks = []
    for m in re.finditer(r"^Check \d+: (\S+)\n\t - Status: (\w+)\n\t - Description: \"(.*)\"\n(?:\t - Location: (.*)\n)?", text, re.M):
        checks.append({"name": m.group(1), "status": m.group(2), "desc": m.group(3), "loc": m.group(4) or ""})
    for blk in re.finditer(r"/// Check for `(\w+)`: \"([^\"\n]*)\"\n(.*?)kani::concrete_playback_run", text, re.S):
        kind, label, body = blk.group(1), blk.group(2), blk.group(3)
        vals = []
        for l in body.splitlines():
            mm = VEC.match(l)
            if mm:
                vals.append([int(x) for x in mm.group(1).split(",") if x.strip()])
        tests.append({"kind": kind, "label": label, "vals": vals})
    return tests, checks, log, to


def build_replay(profile):
    """Build the native replay binary from /repo's current tree. profile: 'dev' | 'release'"""
    _prep()
    tdir = os.path.join(BUILD, "native")
    log = os.path.join(BUILD, "native-build-%s.log" % profile)
    cmd = ["cargo", "build", "--offline", "--bin", "replay", "--target-dir", tdir]
    if profile == "release":
        cmd.append("--release")
    rc, to, wall = _run(cmd, log, 900)
    exe = os.path.join(tdir, "release" if profile == "release" else "debug", "replay")
    return exe if rc == 0 and os.path.exists(exe) else None


def native_replay(harness, vals, profile):
    exe = build_replay(profile)
    if exe is None:
        return {"outcome": "BUILD_FAILED"}
    os.makedirs(os.path.join(BUILD, "vals"), exist_ok=True)
    key = hashlib.sha1(json.dumps([harness, vals]).encode()).hexdigest()[:12]
    path = os.path.join(BUILD, "vals", "%s-%s.txt" % (harness, key))
    with open(path, "w") as f:
        for v in vals:
            f.write(",".join(str(b) for b in v) + "\n")
    try:
        p = subprocess.run([exe, harness, path], capture_output=True, text=True, timeout=120)
    except subprocess.TimeoutExpired:
        return {"outcome": "REPLAY_TIMEOUT"}
    out = p.stdout.strip().splitlines()
    last = out[-1] if out else ""
    if last.startswith("REPRODUCED label="):
        return {"outcome": "REPRODUCED", "label": last.split("=", 1)[1]}
    if last.startswith("PANIC"):
        m = re.match(r"^PANIC loc=(\S*) msg=(.*)$", last)
        loc = m.group(1) if m else ""
        msg = m.group(2) if m else last
        if loc.startswith("src/") or "/verif/harness/" in loc:
            # the panic was raised by harness/oracle code, not by the library: a harness bug, never a finding
            return {"outcome": "HARNESS_PANIC", "loc": loc, "msg": msg}
        return {"outcome": "PANIC", "loc": loc, "msg": msg}
    return {"outcome": "NOT_REPRODUCED", "detail": last}
