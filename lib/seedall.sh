#!/bin/bash
# usage: lib/seedall.sh "<seed>:<PID>[:only]" ...   -- runs lib/seedtest.sh for each, serially; summary in .build/seedall.txt
cd /verif
for spec in "$@"; do
  IFS=: read -r seed pid only <<< "$spec"
  if [ -n "$only" ]; then
    lib/seedtest.sh /verif/seeded/$seed $pid --only "$only" >> .build/seedall.txt 2>&1
  else
    lib/seedtest.sh /verif/seeded/$seed $pid >> .build/seedall.txt 2>&1
  fi
  echo "----" >> .build/seedall.txt
done
