"""Per-property configuration: Engine-M spec module, Engine-K harness list (tier q = quick+thorough, t = thorough only),
bounds text and what lies outside the claim.  DESIGN.md section 3 is the prose version of this table."""

STANDING_ASSUMPTIONS = [
    "rustc's MIR dump (-Zunpretty=mir) and Kani's codegen represent the program cargo builds from /repo's working tree",
    "CBMC 6.11 + CaDiCaL, cvc5 1.0 and z3 are sound; every counterexample is replayed natively (dev and release) before it is reported",
    "Kani harnesses: alloc::fmt::format is stubbed (error messages are not the subject, error kinds are)",
    "Engine M: leaf functions of core/num_traits are modelled (list in coverage.engine_M.leaf_models_used); mathematical Ints with explicit wrap terms",
    "reference definitions (proleptic Gregorian rules, Temporal spec tables) in /verif/lib/specs/refs.py and /verif/harness/src/common.rs are correct",
]


def H(name, tier="q", bounds=""):
    return {"name": name, "tier": tier, "bounds": bounds}


PROPS = {
    "C06": {
        "assumptions": ['Engine M until/since jobs: default rounding (smallest unit nanosecond, increment 1); the generic rounder instantiated at T = i128'],
        "m": "specs.c06",
        "k": [
            H("c06::c06_instant_add_seconds", "q", "Instant::add with a seconds-only duration: any integral double |v| < 9e24 the duration admits (far beyond 2^53), receiver any instant: exact integer sum, range-checked"),
            H("c06::c06_instant_add_nanoseconds", "t", "nanoseconds-only likewise"),
            H("c06::c06_instant_add_hours", "t", "hours-only likewise"),
        ],
        "k_timeout": {"quick": 1500, "thorough": 3000},
        "bounds": {"all": "Engine M: epoch_milliseconds for every instant; NormalizedTimeDuration difference/add_days for every operand in range; "
                          "AddInstant and AddTime (PlainTime::add_to_time) for every receiver and every duration whose six fields are integral doubles with |field| < 2^53 - 1000; "
                          "Instant::until/since (any two instants less than 2^53 ns apart) and PlainTime::until/since (any two times): exact difference, sign-uniform, balanced to every "
                          "largest unit hour..nanosecond with default rounding; "
                          "Engine K: one field at a time beyond 2^53"},
        "outside": "several fields above 2^53 at once, the f64 -> i64 saturating casts above 2^63 ns in PlainTime::add, instant differences above 2^53 ns, until/since with non-default rounding (C07 decides the rounder itself)",
    },
    "C16": {
        "m": None,
        "k": [
            H("c16::c16_gregory_year", "q", "gregory: any ISO date in 1999..=2001; fields consistent; from_partial(year, monthCode, day) rebuilds the ISO date"),
            H("c16::c16_gregory_era_boundary", "q", "gregory via era + eraYear around the BCE/CE boundary (ISO years -1..=1)"),
            H("c16::c16_buddhist_year", "q", "buddhist, 1999..=2001"),
            H("c16::c16_roc_era_boundary", "q", "roc via era + eraYear, ISO 1911..=1912 (era boundary)"),
            H("c16::c16_japanese_era_boundary", "t", "japanese via era + eraYear, ISO 2018..=2019 (heisei/reiwa)"),
            H("c16::c16_coptic_year", "t", "coptic, 1999..=2001"),
            H("c16::c16_ethiopic_year", "t", "ethiopic, 1999..=2001"),
            H("c16::c16_indian_year", "t", "indian, 1999..=2001"),
            H("c16::c16_persian_year", "t", "persian, 1999..=2001"),
        ],
        "k_timeout": {"quick": 2400, "thorough": 3600},
        "bounds": {"all": "arithmetic calendars only, ISO dates in 2-3 year windows; one calendar per harness"},
        "outside": "chinese, dangi, islamic (observational), islamic-umalqura (floating-point astronomy, unbounded search loops: no SAT encoding within reach); hebrew and the tabular islamic calendars; "
                   "consecutive-day property; case-insensitive identifier parsing",
    },
    "C14": {
        "assumptions": ['environment: the synthetic solver-chosen one-transition TimeZoneProvider of C13 (candidates ascending, offset in force)', 'zdt_add: Calendar is the ISO calendar (Calendar::is_iso modelled as true for the opaque calendar value)'],
        "m": "specs.c14",
        "k": [],
        "bounds": {"all": "Engine M over the real ZonedDateTime::start_of_day_with_provider / hours_in_day_with_provider / TimeZone::get_start_of_day / "
                          "ZonedDateTime::add_as_instant MIR with a synthetic zone chosen by the solver: one transition at any second of 2000-06-15; "
                          "day length: whole-hour offsets within +-12 h (gaps and overlaps up to 24 h), receiver any nanosecond of 2000-06-15; "
                          "add: offsets any second count within +-12 h, receiver any nanosecond of 2000-06-13..17, days in -3..=3, hours in -72..=72, "
                          "minutes in -4000..=4000, nanoseconds in -1e12..=1e12 (sign-uniform), other fields 0, loop unrolling 5 (unwinding obligations discharged)"},
        "outside": "until/since (DifferenceZonedDateTime, NudgeToZonedTime), with_plain_time, months/years/weeks in add, Duration.round/total relative to a "
                   "ZonedDateTime, two-transition zones, real IANA data; "
                   "Kani harnesses for start_of_day/hours_in_day/add (harness/src/c14.rs) exist but CBMC does not finish them within 15 min",
    },
    "C19": {
        "assumptions": ['Engine M wiring job: `*_with_provider` twins are uninterpreted; TZ_PROVIDER.lock() is modelled as succeeding (poisoning is C20); wrappers `fmt` and `with_plain_time` are not executable and not covered'],
        "m": "specs.c19",
        "k": [
            H("c19::c19_ffi_enums", "q", "temporal_capi enum conversions: every variant of RoundingMode, Unit, Disambiguation, OffsetDisambiguation"),
            H("c19::c19_ffi_plain_time", "q", "temporal_capi PlainTime create/try_create + six accessors vs temporal_rs::PlainTime for every u8/u16 argument"),
        ],
        "k_timeout": {"quick": 1800, "thorough": 3000},
        "bounds": {"all": "Engine M: every pub fn of src/builtins/compiled/*.rs present in the MIR dump is executed symbolically with its *_with_provider twin uninterpreted "
                          "(calls exactly its own twin, own arguments in order + the process-wide provider, returns the twin's result; lock acquisition modelled as succeeding); "
                          "Engine K: capi enum conversions and capi PlainTime (the value-level accessor harnesses c19_zdt_* exist but do not finish in 15 min; not registered); "
                          "counterexamples of the wiring job are confirmed natively by wrapper-vs-twin calls on probe receivers (25 wrappers)"},
        "outside": "PARTIAL: wrappers that post-process the twin's result are checked for the call only; the other FFI types and option-struct conversions; named zones (file system); Now::*; lock poisoning (C20)",
    },
    "C11": {
        "m": None,
        "k": [
            H("c11::c11_date_writer", "q", "FormattableDate writer for every year in -999999..=999999 and month/day: decoded by a fixed-layout decoder, 4-digit iff 0..=9999"),
            H("c11::c11_time_writer_auto", "t", "FormattableTime writer, precision Auto: every time and nanosecond 0..1e9 - fraction exact and minimal"),
            H("c11::c11_time_writer_minute", "q", "precision Minute"),
            H("c11::c11_time_writer_digit0", "q", "precision Digit(0)"),
            H("c11::c11_time_writer_digit3", "q", "precision Digit(3): exactly three leading digits"),
            H("c11::c11_time_writer_digit7", "t", "precision Digit(7)"),
            H("c11::c11_time_writer_digit9", "t", "precision Digit(9)"),
            H("c11::c11_offset_round_trip", "q", "UtcOffset: from_str of the canonical text then to_string, every +-HH:MM"),
            H("c11::c11_enum_names", "q", "Display -> FromStr -> Display for every variant of Unit, RoundingMode, ArithmeticOverflow, Disambiguation, OffsetDisambiguation, DisplayCalendar/Offset/TimeZone"),
        ],
        "k_timeout": {"quick": 1800, "thorough": 3000},
        "bounds": {"all": "writers into a 40-byte sink; digit loops unwound 12"},
        "outside": "PARTIAL: the duration writer (harness c11_duration_fraction_kept decides 'a non-zero sub-second part is always written' but needs 20 GB and 16 min; run on demand, not registered); the ixdtf crate's text -> record step is not executed (DESIGN.md cut 4); record -> value halves (parser stub), year-month / month-day / "
                   "zoned writers, TimeZone identifier and MonthCode round trips are not built yet",
    },
    "C18": {
        "m": None,
        "k": [
            H("c18::c18_year_month_routes_2000", "q", "PlainYearMonth from constructor / from_partial with any day / PlainDate::to_plain_year_month: any date in 1999..=2001"),
            H("c18::c18_year_month_limits", "q", "PlainYearMonth::new_with_overflow: years within 2 of each limit and around 0, any u8 month, both overflow modes"),
            H("c18::c18_month_day", "q", "PlainMonthDay::new_with_overflow: any u8 month and day, both overflow modes"),
            H("c18::c18_month_day_from_date_2000", "q", "PlainDate::to_plain_month_day: any date in 1999..=2001"),
        ],
        "k_timeout": {"quick": 1800, "thorough": 3000},
        "bounds": {"all": "ISO calendar; dates in a 3-year window; year-month limits probed within 2 years of each bound"},
        "outside": "string routes; year-month add/subtract/until/since and explicit reference arguments (harnesses c18_year_month_add/until/since_2020 exist but CBMC does not finish them in 25 min; not registered)",
    },
    "C17": {
        "m": None,
        "k": [
            H("c17::c17_date_from_partial_2000", "q", "PlainDate::from_partial (ISO): year in 1999..=2001 or absent, month any u8 or absent, monthCode any M dd [L] or absent, day any u8 or absent, overflow absent/constrain/reject"),
            H("c17::c17_date_from_partial_limits", "t", "same with year 275759..=275761 (upper limit)"),
            H("c17::c17_date_with_2000", "t", "PlainDate::with on any receiver date in 1999..=2001 with the same symbolic record"),
            H("c17::c17_time_from_partial", "q", "PlainTime::from_partial: six independent Option fields over their full u8/u16 ranges, all overflow modes"),
            H("c17::c17_time_with", "q", "PlainTime::with on any receiver time"),
        ],
        "k_timeout": {"quick": 1800, "thorough": 3000},
        "bounds": {"all": "ISO calendar; era/eraYear absent; receivers and years in 3-year windows"},
        "outside": "PlainDateTime / PlainYearMonth / ZonedDateTime partials, era-based records and non-ISO calendars",
    },
    "C15": {
        "assumptions": ["environment (Engine M provider_offset): FsTzdbProvider::get returns the zone's table and Tzif::get answers by its contract 'offset of the period containing the second' (decided on symbolic tables by the Kani harness c15_tzif_get) for a one-transition zone chosen by the solver", 'Kani harnesses: TZif v2 tables built directly from symbolic values (public fields of tzif::data), no footer; transitions strictly ascending as RFC 8536 requires'],
        "m": "specs.c15",
        "k": [
            H("c15::c15_tzif_get", "q", "Tzif::get on symbolic TZif v2 tables: 1..=3 strictly ascending transitions in +-4e9 s, 2..=3 local-time types with |utoff| <= 26 h, query second anywhere before the last transition"),
            H("c15::c15_estimate_pair", "q", "Tzif::v2_estimate_tz_pair on the same tables (2..=3 transitions more than 400000 s apart), local second anywhere up to 200000 s before the last transition: "
                                             "the records returned are exactly the periods that contain the local time under their own offset"),
        ],
        "k_timeout": {"quick": 1800, "thorough": 3000},
        "bounds": {"all": "tables of at most 3 transitions / 3 types, all values symbolic; binary search loops unwound 5"},
        "outside": "PARTIAL: POSIX footer evaluation, real zoneinfo files, provider cache purity, file I/O and the identifier check are not covered yet",
    },
    "C13": {
        "assumptions": ['environment: the TimeZoneProvider is a synthetic zone chosen by the solver (one transition at a symbolic second, symbolic offsets), answering get_named_tz_epoch_nanoseconds with the candidates in ascending order and get_named_tz_offset_nanoseconds with the offset in force - the provider contract of src/provider.rs', "environment (offset_record jobs): Fraction::to_nanoseconds = Some(ns) iff digits <= 9; the parser's offset record is arbitrary within hour 0..=23, minute/second 0..=59", "interpret_offset: the callers' contract match_minutes = true and is_exact => no offset value"],
        "m": "specs.c13",
        "k": [],
        "bounds": {"all": "Engine M over the real TimeZone::get_epoch_nanoseconds_for / disambiguate_possible_epoch_nanos / get_iso_datetime_for MIR with a synthetic zone chosen by the solver: "
                          "one transition at any second of 2000-06-15, offsets before/after any second count with |offset| < 24 h (gaps and overlaps up to 48 h), "
                          "every local time of 2000-06-15 at nanosecond resolution / every instant of 2000-06-14..16, all four disambiguations; InterpretISODateTimeOffset for all four offset options x "
                          "Z / explicit offset (any ns) / none (callers' contract match_minutes = true); offset extraction of zoned / relative-to strings over arbitrary offset records; "
                          "fixed-offset zones: reading of every instant of 2000-06-14..16 under every +-hh:mm"},
        "outside": "wall -> instant in fixed-offset zones (its vec! construction is raw-pointer code the encoder does not model), two-transition zones, real IANA data (C15); "
                   "Kani harnesses for the same functions exist (harness/src/c13.rs) but CBMC does not finish them within 15 min",
    },
    "C12": {
        "assumptions": ["environment (Engine M record jobs): parsers::parse_ixdtf returns an arbitrary record within ixdtf 0.4's output contract (year -999999..=999999, valid month/day, hour 0..=23, minute 0..=59, second 0..=60, fraction of 1..=12 digits, offset hour 0..=23, minute/second 0..=59; short month-day form: month 1..=12, day 1..=31 unvalidated), no annotations; Fraction::to_nanoseconds = Some(ns) iff digits <= 9", 'contracts (Engine M record_instant): IsoDate::balance / to_epoch_days are replaced by their contracts, which the lemma jobs C12.lemma.* discharge for years +-1000001 / days +-3.66e8 in the same run', 'error payloads of Result::map_err closures are not modelled (kind taken as RangeError where the closure constructs TemporalError::range())'],
        "m": "specs.c12",
        "k": [
            H("c12::c12_offset_ascii_6", "q", "UtcOffset::from_str on every ASCII string of <= 6 bytes vs the minute-precision UTC offset grammar"),
            H("c12::c12_offset_ascii_8", "t", "same, <= 8 bytes (reaches the sub-minute suffix forms)"),
            H("c12::c12_offset_non_ascii", "q", "'+' X '1:00' and '+1' X ':00' with X any Unicode scalar value (non-ASCII numerals must be rejected, no panic)"),
            H("c12::c12_month_code", "q", "MonthCode::try_from_utf8 on every byte string of <= 5 bytes"),
        ],
        "k_timeout": {"quick": 1500, "thorough": 3000},
        "bounds": {"all": "Engine K: repo-owned character parsers only, strings up to the stated byte lengths; loops unwound to length + slack with unwinding assertions on. "
                          "Engine M (record level): the real post-parse code of Instant / PlainTime / PlainDateTime / PlainDate FromStr (parse_instant, parse_date_time, parse_time, "
                          "IsoTime::from_time_record, the FromStr bodies) over *every* parse record ixdtf's grammar can return for a string without annotations: year -999999..=999999, "
                          "valid month/day, any time incl. :60, fractions of 1..=12 digits, offset +-hh:mm:ss.f or Z; the date kernels beyond Temporal's range enter through "
                          "contracts discharged by the C12.lemma jobs (years +-1000001)"},
        "outside": "PARTIAL: TimeZone::try_from_identifier_str on symbolic strings (harnesses c12_tz_identifier_3/4/5 exist but CBMC runs out of 14 GB even for 3 bytes; not registered); the ixdtf crate's character-level grammar (text -> parse record) is not executed (external crate; its contract is an assumption of the "
                   "record-level jobs, DESIGN.md cut 4); annotations (calendar, time zone, critical flags) and the annotation handler; PlainYearMonth / PlainMonthDay / "
                   "ZonedDateTime / Duration strings at record level; longer strings for the character parsers; Calendar::from_utf8 case-insensitivity",
    },
    "C04": {
        "assumptions": ['compositional step (add_date): AddISODate is shown to call IsoDate::balance exactly once with (intermediate year, month, constrained day + days + 7*weeks) and to return its result; BalanceISODate itself is decided for every argument by C01 (C01.balance.*)'],
        "m": "specs.c04",
        "k": [
            H("c04::c04_date_add_api_2000", "t", "PlainDate::add (API level): receiver any date in 1999..=2001, duration years 0..1, months 0..13, weeks 0..2, days 0..40, hours 0..60 times a common sign, both overflow modes"),
            H("c04::c04_date_until_years_2020", "t", "PlainDate::until with largestUnit year: any two dates in 2019..=2021 (leap day included): sign-uniform, balanced, maximal year-month part (ISODateSurpasses on the unconstrained start day), add-back"),
        ],
        "k_timeout": {"quick": 2400, "thorough": 3600},
        "bounds": {"all": "Engine M over the real AddISODate / DifferenceISODate / BalanceISOYearMonth MIR: every representable receiver date (cycle-decomposed years), "
                          "durations with |years| <= 600000, |weeks| <= 3e7 and months/days such that the intermediate year is within +-300000 and the target day within +-3e8; "
                          "diff: every pair of representable dates, largestUnit day/week (month/year: see inconclusive notes), loops unrolled 14 with unwinding obligations; "
                          "duration fields are exact-integer doubles (|v| <= 2^53)"},
        "outside": "PlainDate::add/until/since wrappers (calendar dispatch, option resolution, Duration construction) are not executed by Engine M; "
                   "IsValidDuration is used through its summary (decided by C09); compositional steps rely on C01 (BalanceISODate for all arguments)",
    },
    "C05": {
        "assumptions": ['compositional steps (from_epoch_nanos round trip, RoundISODateTime, AddDateTime): the date part is shown to be BalanceISODate / AddISODate of exactly the stated arguments; those kernels are decided by C01 / C04'],
        "m": "specs.c05",
        "k": [],
        "bounds": {"quick": "Engine M: BalanceTime for |fields| <= 2^53, AddTime for every time and |duration| < 2^53 s, from_epoch_nanos for every instant, "
                            "RoundISODateTime for every representable date-time x 9 modes for a covering set of the admissible (unit, increment) pairs",
                   "thorough": "as quick with all 75 admissible (unit, increment) pairs"},
        "outside": "PlainDateTime::add/until/since wrappers and DifferenceISODateTime (calendar + Duration plumbing) - not executed by Engine M yet",
    },
    "C09": {
        "assumptions": ['Engine M jobs: fields are integral doubles within the exact-float envelope (|days| <= 1e8, other fields <= 2^40: two such operands still sum below the 2^53 s cap, at 2^50 they need not); generic helpers instantiated at T = i64'],
        "m": "specs.c09",
        "k": [
            H("c09::c09_valid_sign", "q", "Duration::new: all ten fields integral in -1000..=1000 (symbolic): valid iff sign-uniform"),
            H("c09::c09_valid_calendar_fields", "q", "years/months/weeks = arbitrary finite integral doubles: valid iff each |v| < 2^32"),
            H("c09::c09_valid_days_hours", "q", "days, hours = arbitrary non-negative finite integral doubles: valid iff exact total < 2^53 s"),
            H("c09::c09_valid_minutes_seconds", "q", "minutes, seconds likewise"),
            H("c09::c09_valid_seconds_millis", "q", "seconds, milliseconds likewise (sub-second carry into the 2^53 s bound)"),
            H("c09::c09_valid_micros_nanos", "q", "microseconds, nanoseconds, non-positive"),
            H("c09::c09_valid_days_to_seconds", "t", "days, hours, minutes, seconds all symbolic at once"),
            H("c09::c09_valid_seconds_to_nanos", "t", "seconds .. nanoseconds all symbolic at once"),
            H("c09::c09_valid_days_and_nanos", "q", "days and nanoseconds: arbitrary finite integral doubles of any sign and magnitude"),
            H("c09::c09_add_result_valid_near_cap", "q", "Duration::add of two nanosecond-only durations, both any integral double below 9.1e24: Ok => the result is a valid duration and the exact sum is below 2^53 s"),
            H("c09::c09_sign_ops", "q", "negated/abs/sign/is_zero: ten fields 0..=1000 times a symbolic sign"),
        ],
        "k_timeout": {"quick": 1500, "thorough": 3000},
        "bounds": {"all": "fields are symbolic doubles constrained to finite integral values (any magnitude for the validity harnesses); loops over the 10 fields unwound 12"},
        "outside": "round/total without relativeTo (fractional results); compare/add/subtract outside the Engine M envelope (|days| <= 1e8, other fields <= 2^40) except the near-cap Kani harness; non-integral field values",
    },
    "C10": {
        "m": None,
        "k": [
            H("c10::c10_diff_settings", "q", "GetDifferenceSettings: operation x Option<Unit> (12) x Option<Unit> (11, smallestUnit=auto apart) x any increment 1..=1e9 or absent x mode or absent x the crate's six caller configurations, all symbolic at once"),
            H("c10::c10_duration_options", "q", "Duration.round options: both Option<Unit> x any increment x mode x existing largest unit, all symbolic"),
            H("c10::c10_datetime_options", "q", "PlainDateTime/ZonedDateTime.round options, all symbolic"),
            H("c10::c10_instant_options_ns", "t", "Instant.round options, unit nanosecond, every increment 1..=1e9 (symbolic) against the per-day maximum"),
            H("c10::c10_instant_options_us", "q", "unit microsecond"),
            H("c10::c10_instant_options_ms", "q", "unit millisecond"),
            H("c10::c10_instant_options_s", "q", "unit second"),
            H("c10::c10_instant_options_min", "q", "unit minute"),
            H("c10::c10_instant_options_h", "q", "unit hour"),
            H("c10::c10_instant_options_other", "q", "smallestUnit absent, auto or a date unit"),
            H("c10::c10_to_string_options", "q", "toString precision/smallestUnit/mode: every Option<Unit>, Auto or any u8 digit count"),
        ],
        "bounds": {"all": "the complete finite option matrix of every resolver incl. every increment value 1..=1e9 (symbolic u32); no unrolling involved"},
        "outside": "ad-hoc validation in PlainTime::round / PlainYearMonth::until (float increment conversion) and the observable effect of the defaults through each public method",
    },
    "C02": {
        "m": "specs.c02",
        "k": [],
        "bounds": {"all": "Engine M: ISODateTimeWithinLimits and IsoDate::new_with_overflow (both overflow modes) for every year in -300000..=300000, "
                          "every u8 month/day and every wall-clock time; year-month limits for every i32 year; EpochNanoseconds::try_from for every i128; "
                          "Instant::from_epoch_milliseconds for every i64"},
        "outside": "arithmetic/rounding/conversion paths (add, subtract, round, until, to_* conversions) near the limits: Kani boundary harnesses, not built yet",
    },
    "C03": {
        "m": "specs.c03",
        "k": [
            # wide-input harnesses of other properties, run here for Kani's own checks only (overflow, unwrap, index,
            # unreachable): their role assertions belong to their own property and are ignored under C03
            H("c12::c12_offset_non_ascii", "q", "offset parser on '+' X '1:00' / '+1' X ':00', X any Unicode scalar value"),
            H("c12::c12_offset_ascii_6", "q", "offset parser on every ASCII string of <= 6 bytes"),
            H("c12::c12_month_code", "q", "MonthCode::try_from_utf8 on every byte string of <= 5 bytes"),
            H("c17::c17_date_from_partial_2000", "q", "PlainDate::from_partial: every month/monthCode/day combination incl. out-of-range months with agreeing codes"),
            H("c17::c17_time_from_partial", "q", "PlainTime::from_partial over all field subsets and values"),
            H("c10::c10_diff_settings", "q", "every option combination into GetDifferenceSettings"),
            H("c09::c09_valid_days_and_nanos", "q", "Duration::new with days and nanoseconds any finite integral double"),
        ],
        "k_timeout": {"quick": 1800, "thorough": 3000},
        "bounds": {"all": "Engine M (debug semantics: every overflow/division/index assert, assert!, unreachable!, unwrap is an obligation): "
                          "IsoDate::new_with_overflow for every i32 year and u8 month/day; IsoDateTime::from_epoch_nanos for every instant in range and "
                          "|offset| <= 1e15 ns; Unit::to_maximum_rounding_increment for every Unit; plus the panic obligations of every other Engine-M job (C01, C02, C07)"},
        "outside": "the ixdtf grammar, time-zone providers with irregular data, float-based duration rounding and temporal_capi beyond C19's harnesses",
    },
    "C07": {
        "m": "specs.c07",
        "k": [],
        "bounds": {"quick": "Engine M, real MIR of IncrementRounder<i128>/IsoTime::round/Instant::round_instant/NormalizedTimeDuration::round_inner: "
                            "all values (|x| <= 2^100; all wall-clock times; all instants in range; all durations below the 2^53 s cap) x all 9 modes, "
                            "for all 75 (unit, increment) pairs admissible for time/date-time/duration rounding and a covering subset of the "
                            "Instant.round increments (all odd, all prime powers, maxima, 40 seed-chosen others)",
                   "thorough": "as quick, with every increment admissible for Instant.round (every divisor of one day <= 1e9 per unit)"},
        "outside": "the f64 instantiation of the rounder (day and calendar units of Duration.round) - floats are outside Engine M; "
                   "halfEven parity follows Temporal's RoundTime (quantity counted within the next larger unit)",
    },
    "C01": {
        "m": "specs.c01",
        "k": [
            H("c01::c01_iso_getters_2000", "q", "ISO-branch getters (day_of_week, day_of_year, week_of_year, year_of_week, days_in_month, days_in_year, in_leap_year): any date in 1999..=2001"),
            H("c01::c01_iso_getters_1970", "t", "same, 1969..=1972"),
            H("c01::c01_iso_getters_1900", "t", "same, 1899..=1904 (non-leap century and the next leap year)"),
            H("c01::c01_iso_getters_neg", "t", "same, years -1..=1"),
        ],
        "k_timeout": {"quick": 1800, "thorough": 3000},
        "bounds": {"all": "Engine M: every epoch day in -100000001..=100000001 and every year -271821..=275760 (chunked); "
                          "balance: day offsets |day| <= 200000010 with the target day inside the range"},
        "outside": "calendar-library getters (day_of_week, week_of_year, ...) are decided by Kani harnesses in year windows only (the library code is the same for every year; years outside the windows are not claimed)",
    },
}
