"""Per-property configuration: Engine-M spec module, Engine-K harness list (tier q = quick+thorough, t = thorough only),
bounds text and what lies outside the claim.  DESIGN.md section 3 is the prose version of this table."""

STANDING_ASSUMPTIONS = [
    "rustc's MIR dump (-Zunpretty=mir) and Kani's codegen represent the program cargo builds from /repo's working tree",
    "CBMC 6.11 + CaDiCaL, cvc5 1.0 and z3 are sound; every counterexample is replayed natively (dev and release) before it is reported",
    "Kani harnesses: alloc::fmt::format is stubbed (error messages are not the subject, error kinds are)",
    "Engine M: leaf functions of core/num_traits are modelled (list in coverage.engine_M.leaf_models_used); mathematical Ints with explicit wrap terms",
    "reference definitions (proleptic Gregorian rules, Temporal spec tables) in /verif/lib/specs/refs.py and /verif/harness/src/common.rs are correct",
]


def H(name, tier="q", bounds=""):
    return {"name": name, "tier": tier, "bounds": bounds}


PROPS = {
    "C02": {
        "m": "specs.c02",
        "k": [],
        "bounds": {"all": "Engine M: ISODateTimeWithinLimits and IsoDate::new_with_overflow (both overflow modes) for every year in -300000..=300000, "
                          "every u8 month/day and every wall-clock time; year-month limits for every i32 year; EpochNanoseconds::try_from for every i128; "
                          "Instant::from_epoch_milliseconds for every i64"},
        "outside": "arithmetic/rounding/conversion paths (add, subtract, round, until, to_* conversions) near the limits: Kani boundary harnesses, not built yet",
    },
    "C03": {
        "m": "specs.c03",
        "k": [],
        "bounds": {"all": "Engine M (debug semantics: every overflow/division/index assert, assert!, unreachable!, unwrap is an obligation): "
                          "IsoDate::new_with_overflow for every i32 year and u8 month/day; IsoDateTime::from_epoch_nanos for every instant in range and "
                          "|offset| <= 1e15 ns; Unit::to_maximum_rounding_increment for every Unit; plus the panic obligations of every other Engine-M job (C01, C02, C07)"},
        "outside": "string parsers, time-zone providers, float-based duration code and temporal_capi: Kani harnesses, not built yet",
    },
    "C07": {
        "m": "specs.c07",
        "k": [],
        "bounds": {"quick": "Engine M, real MIR of IncrementRounder<i128>/IsoTime::round/Instant::round_instant/NormalizedTimeDuration::round_inner: "
                            "all values (|x| <= 2^100; all wall-clock times; all instants in range; all durations below the 2^53 s cap) x all 9 modes, "
                            "for all 75 (unit, increment) pairs admissible for time/date-time/duration rounding and a covering subset of the "
                            "Instant.round increments (all odd, all prime powers, maxima, 40 seed-chosen others)",
                   "thorough": "as quick, with every increment admissible for Instant.round (every divisor of one day <= 1e9 per unit)"},
        "outside": "the f64 instantiation of the rounder (day and calendar units of Duration.round) - floats are outside Engine M; "
                   "halfEven parity follows Temporal's RoundTime (quantity counted within the next larger unit)",
    },
    "C01": {
        "m": "specs.c01",
        "k": [],
        "bounds": {"all": "Engine M: every epoch day in -100000001..=100000001 and every year -271821..=275760 (chunked); "
                          "balance: day offsets |day| <= 200000010 with the target day inside the range"},
        "outside": "calendar-library getters (day_of_week, week_of_year, ...) are decided by Kani harnesses in year windows only",
    },
}
