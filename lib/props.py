"""Per-property configuration: Engine-M spec module, Engine-K harness list (tier q = quick+thorough, t = thorough only),
bounds text and what lies outside the claim.  DESIGN.md section 3 is the prose version of this table."""

STANDING_ASSUMPTIONS = [
    "rustc's MIR dump (-Zunpretty=mir) and Kani's codegen represent the program cargo builds from /repo's working tree",
    "CBMC 6.11 + CaDiCaL, cvc5 1.0 and z3 are sound; every counterexample is replayed natively (dev and release) before it is reported",
    "Kani harnesses: alloc::fmt::format is stubbed (error messages are not the subject, error kinds are)",
    "Engine M: leaf functions of core/num_traits are modelled (list in coverage.engine_M.leaf_models_used); mathematical Ints with explicit wrap terms",
    "reference definitions (proleptic Gregorian rules, Temporal spec tables) in /verif/lib/specs/refs.py and /verif/harness/src/common.rs are correct",
]


def H(name, tier="q", bounds=""):
    return {"name": name, "tier": tier, "bounds": bounds}


PROPS = {
    "C01": {
        "m": "specs.c01",
        "k": [],
        "bounds": {"all": "Engine M: every epoch day in -100000001..=100000001 and every year -271821..=275760 (chunked); "
                          "balance: day offsets |day| <= 200000010 with the target day inside the range"},
        "outside": "calendar-library getters (day_of_week, week_of_year, ...) are decided by Kani harnesses in year windows only",
    },
}
