#!/usr/bin/env python3
"""Driver: /verif/check <Cxx> [--tier quick|thorough] [--replay <path>]

Decides one property with Engine M (MIR -> SMT, cvc5/z3) and Engine K (Kani/CBMC), both run against
/repo's current working tree, replays every counterexample natively, filters through KNOWN_FINDINGS.json,
writes /verif/evidence/<id>.json.  Exit 0 = held on everything explored, 1 = violation (VIOLATION line),
2 = inconclusive (timeout / OOM / solver error / non-reproducing counterexample / harness broken).
"""
import sys, os, json, time, hashlib, importlib, argparse, multiprocessing, traceback

HERE = os.path.dirname(os.path.abspath(__file__))
VERIF = os.path.dirname(HERE)
sys.path.insert(0, HERE)

import kani           # noqa: E402
import props          # noqa: E402


def load_known():
    p = os.path.join(VERIF, "KNOWN_FINDINGS.json")
    if not os.path.exists(p):
        return []
    return json.load(open(p))


def known_match(known, pid, label, detail=""):
    for k in known:
        if k.get("property") != pid or k.get("status") != "known":
            continue
        if label == k.get("label") or label.startswith(k.get("label", "\0") + ".") or label.startswith(k.get("label", "\0") + ":"):
            m = k.get("match")
            if m and m not in detail:
                continue
            return k
    return None


def _m_worker(arg):
    modname, fname, jobname, params, opts = arg
    from mirsmt import spec
    mod = importlib.import_module(modname)
    fn = getattr(mod, fname)
    return spec.run_symbolic(jobname, fn, params, opts)


def run_engine_m(pid, conf, tier, seed, procs):
    """-> (results list, jobs table)"""
    if not conf.get("m"):
        return [], {}
    mod = importlib.import_module(conf["m"])
    jobs = mod.jobs(tier, seed)
    table = {}
    args = []
    for j in jobs:
        name, fn, params = j[0], j[1], j[2]
        opts = dict(conf.get("m_opts", {}))
        if len(j) > 3 and j[3]:
            opts.update(j[3])
        opts.setdefault("timeout", 300 if tier == "quick" else 1200)
        table[name] = (conf["m"], fn.__name__, params, opts)
        args.append((conf["m"], fn.__name__, name, params, opts))
    # make sure the MIR dump exists before forking (one dump, many workers)
    from mirsmt import dump
    dump.get_dump(True)
    only = os.environ.get("VERIF_ONLY")
    if only:
        args = [x for x in args if only in x[2]]
    with multiprocessing.Pool(min(procs, max(1, len(args)))) as pool:
        results = pool.map(_m_worker, args, chunksize=1)
    return results, table


def run_validation(conf):
    """translator validation: repo test inputs through the MIR executor (concrete) and the native code"""
    if not conf.get("m"):
        return 0, []
    mod = importlib.import_module(conf["m"])
    vecs = getattr(mod, "VALIDATION", [])
    if not vecs:
        return 0, []
    from mirsmt import spec as mspec
    built = mspec.build_native(("dev",))
    if not built.get("dev"):
        return 0, [("native build failed", "", "")]
    calls, mism = 0, []
    for entry in vecs:
        fn, params, vectors = entry[0], entry[1], entry[2]
        gen = entry[3] if len(entry) > 3 else None
        c, m = mspec.validate(fn, params, vectors, generics=gen)
        calls += c
        mism += m
    return calls, mism


def main():
    ap = argparse.ArgumentParser()
    ap.add_argument("pid")
    ap.add_argument("--tier", default=os.environ.get("VERIF_TIER", "quick"))
    ap.add_argument("--replay", default=None)
    ap.add_argument("--only", default=None, help="substring filter on job / harness names (debugging)")
    a = ap.parse_args()
    pid = a.pid.upper()
    tier = a.tier if a.tier in ("quick", "thorough") else "quick"
    try:
        seed = int(os.environ.get("VERIF_SEED", "0"))
    except ValueError:
        seed = 0
    if pid not in props.PROPS:
        print("property %s is not claimed (see MANIFEST.json not_applicable)" % pid)
        return 2
    conf = props.PROPS[pid]
    if a.replay:
        return do_replay(pid, conf, a.replay)

    t0 = time.time()
    known = load_known()
    procs = int(os.environ.get("VERIF_PROCS", "14"))
    violations = []      # dicts
    inconclusive = []    # strings
    known_hits = []
    ev = {"m": None, "k": None}

    # ------------------------------------------------------------------ Engine M
    m_results, m_table = [], {}
    try:
        if a.only:
            os.environ["VERIF_ONLY"] = a.only
        m_results, m_table = run_engine_m(pid, conf, tier, seed, procs)
    except Exception as e:
        inconclusive.append("engine M failed: %s" % e)
        traceback.print_exc()
    val_calls, val_mism = 0, []
    try:
        val_calls, val_mism = run_validation(conf)
    except Exception as e:
        inconclusive.append("translator validation failed to run: %s" % e)
    for mm in val_mism[:5]:
        inconclusive.append("translator validation mismatch (encoding vs native): %r" % (mm,))
    m_stats = {"jobs": len(m_results), "queries": 0, "holds": 0, "witness_ok": 0, "solver_s": 0.0, "encoded": set(),
               "models": set(), "samples": [], "nontrivial": 0}
    cex = []
    for r in m_results:
        if r.get("error"):
            inconclusive.append("M job %s: %s" % (r["job"], r["error"].split("\n")[0]))
        reach = any(q["kind"] == "witness" and q["verdict"] == "reachable" for q in r["queries"])
        has_w = any(q["kind"] == "witness" for q in r["queries"])
        for q in r["queries"]:
            m_stats["solver_s"] += q["seconds"]
            if q["kind"] == "witness":
                if q["verdict"] == "VACUOUS":
                    inconclusive.append("M job %s: vacuous (%s unsatisfiable)" % (r["job"], q["name"]))
                elif q["verdict"] != "reachable":
                    inconclusive.append("M job %s: witness %s %s" % (r["job"], q["name"], q["verdict"]))
                else:
                    m_stats["witness_ok"] += 1
                continue
            m_stats["queries"] += 1
            if q["verdict"] == "holds":
                m_stats["holds"] += 1
                if reach or not has_w:
                    m_stats["nontrivial"] += 1
            elif q["verdict"] == "counterexample" and q["kind"] in ("fpexact", "exhaustive", "unwind"):
                inconclusive.append("M query %s in %s: outside the encoder's model/bound (%s) for input %s: %s" %
                                    (q["name"], r["job"], q["kind"], q["model"], q["detail"][:100]))
            elif q["verdict"] == "counterexample":
                cex.append((r, q))
            else:
                inconclusive.append("M query %s in %s: %s %s" % (q["name"], r["job"], q["verdict"], q["detail"][:120]))
        m_stats["encoded"].update(r.get("encoded", []))
        m_stats["models"].update(r.get("models", []))
        if len(m_stats["samples"]) < 6 and r["queries"]:
            m_stats["samples"].append({"engine": "M", "job": r["job"], "params": r.get("params"),
                                       "queries": [(q["name"], q["verdict"], q["seconds"]) for q in r["queries"] if q["kind"] != "panic"][:6],
                                       "panic_obligations": sum(1 for q in r["queries"] if q["kind"] in ("panic", "unwind", "exhaustive", "fpexact"))})
    if cex:
        from mirsmt import spec as mspec
        built = mspec.build_native()
        for r, q in cex:
            modname, fname, params, opts = m_table[r["job"]]
            fn = getattr(importlib.import_module(modname), fname)
            label = q["name"] if q["kind"] == "goal" else "%s:%s" % (q["name"].split("#")[0], q["detail"].split(" ")[0])
            outcomes = {}
            for prof in ("dev", "release"):
                if not built.get(prof):
                    outcomes[prof] = ("error", "native build failed")
                    continue
                outcomes[prof] = mspec.replay_native(fn, params, q["model"] or {}, q["name"], q["kind"], prof)
            if q["kind"] == "goal":
                rep = any(o[0] == "reproduced" for o in outcomes.values())
            else:
                rep = any(o[0] == "panic" for o in outcomes.values())
            rec = {"property": pid, "label": label, "engine": "M", "job": r["job"], "spec": [modname, fname], "params": params,
                   "query": q["name"], "kind": q["kind"], "model": q["model"], "detail": q["detail"],
                   "native": {k: list(v) for k, v in outcomes.items()}}
            if rep:
                violations.append(rec)
            else:
                inconclusive.append("M counterexample for %s did not reproduce natively: %s %s" % (label, q["model"], outcomes))

    # ------------------------------------------------------------------ Engine K
    k_stats = {"harnesses": 0, "checks": 0, "ok": 0, "covers": 0, "solver_wall": 0.0, "samples": [], "nontrivial": 0}
    hs = [h for h in conf.get("k", []) if tier == "thorough" or h.get("tier", "q") == "q"]
    if a.only:
        hs = [h for h in hs if a.only in h["name"]]
    if hs:
        names = [h["name"] for h in hs]
        tmo = conf.get("k_timeout", {}).get(tier, 900 if tier == "quick" else 3000)
        res, log, wall = kani.run_harnesses(names, min(procs, len(names)), tmo, "%s-%s" % (pid, tier))
        k_stats["solver_wall"] = wall
        for h in hs:
            short = h["name"].split("::")[-1]
            r = res.get(short) or res.get(h["name"]) or {"status": "NOT_RUN", "failed_checks": []}
            k_stats["harnesses"] += 1
            k_stats["checks"] += r.get("n_checks", 0)
            st = r["status"]
            if len(k_stats["samples"]) < 8:
                k_stats["samples"].append({"engine": "K", "harness": h["name"], "bounds": h.get("bounds", ""), "status": st,
                                           "cbmc_checks": r.get("n_checks", 0), "unreachable": r.get("n_unreach", 0),
                                           "covers": "%s/%s" % (r.get("covers_sat", 0), r.get("covers_total", 0)),
                                           "seconds": r.get("time")})
            if st == "SUCCESSFUL":
                if r.get("covers_total", 0) != r.get("covers_sat", 0):
                    inconclusive.append("K harness %s: only %s of %s reachability witnesses satisfied (vacuity)" %
                                        (short, r.get("covers_sat"), r.get("covers_total")))
                else:
                    k_stats["ok"] += 1
                    k_stats["covers"] += r.get("covers_sat", 0)
                    k_stats["nontrivial"] += r.get("n_checks", 0) - r.get("n_unreach", 0)
                if not r.get("stub_ok"):
                    inconclusive.append("K harness %s: fmt stub not applied" % short)
                continue
            if st != "FAILED":
                inconclusive.append("K harness %s: %s (see %s)" % (short, st, log))
                continue
            # failed: classify, then playback + native replay
            fc = r.get("failed_checks", [])
            if any("unwinding assertion" in c for c in fc):
                inconclusive.append("K harness %s: unwinding bound too small (%s)" % (short, "; ".join(fc)[:200]))
                continue
            tests, checks, plog, pto = kani.playback(h["name"], tmo + 600, "%s" % pid)
            fails = [t for t in tests if t["kind"] != "cover"]
            if not fails:
                # Kani sometimes prints playback vectors for the cover witnesses only; such a vector may still drive the
                # native build into the failed assertion - native reproduction is the criterion either way
                rescued = False
                for t in tests:
                    outs = {prof: kani.native_replay(short, t["vals"], prof) for prof in ("dev", "release")}
                    for o in outs.values():
                        lab = o.get("label")
                        if o.get("outcome") == "REPRODUCED" and lab in fc and lab.startswith(pid + "."):
                            if not any(v["label"] == lab and v.get("harness") == h["name"] for v in violations):
                                violations.append({"property": pid, "label": lab, "engine": "K", "harness": h["name"], "kani_check": lab,
                                                   "vals": t["vals"], "native": outs, "detail": lab})
                            rescued = True
                if not rescued:
                    inconclusive.append("K harness %s failed (%s) but produced no counterexample (see %s)" % (short, fc, plog))
                continue
            for t in fails:
                lab = t["label"]
                is_role = lab.startswith("C") and lab[1:3].isdigit() and "." in lab
                if is_role and not lab.startswith(pid + "."):
                    # a harness borrowed from another property (e.g. C03 reusing C12's parser harness for its panic
                    # checks): that property's own assertions are decided by its own check
                    continue
                outs = {}
                for prof in ("dev", "release"):
                    outs[prof] = kani.native_replay(short, t["vals"], prof)
                if is_role:
                    rep = any(o.get("outcome") == "REPRODUCED" and o.get("label") == lab for o in outs.values())
                    label = lab
                else:
                    rep = any(o.get("outcome") == "PANIC" for o in outs.values())
                    label = "%s.%s.panic" % (pid, short)
                    if any(o.get("outcome") == "HARNESS_PANIC" for o in outs.values()):
                        inconclusive.append("K harness %s: the harness/oracle code itself panics (%s) - harness bug, not a finding" % (short, outs))
                        continue
                rec = {"property": pid, "label": label, "engine": "K", "harness": h["name"], "kani_check": lab,
                       "vals": t["vals"], "native": outs, "detail": lab}
                if rep:
                    if not any(v["label"] == label and v.get("harness") == h["name"] for v in violations):
                        violations.append(rec)
                else:
                    inconclusive.append("K counterexample for %s in %s did not reproduce natively: %s" % (lab, short, outs))

    # ------------------------------------------------------------------ known findings, replay files, verdict
    new_v = []
    for v in violations:
        k = known_match(known, pid, v["label"], json.dumps(v.get("detail", "")))
        if k:
            known_hits.append((k, v))
        else:
            new_v.append(v)
    printed = set()
    for k, v in known_hits:
        key = (k["label"])
        if key in printed:
            continue
        printed.add(key)
        print("KNOWN-FINDING: property=%s %s [%s]" % (pid, k.get("what", ""), k["label"]))
    rdir = os.path.join(VERIF, "replays", pid)
    seen_labels = {}
    for v in new_v:
        seen_labels[v["label"]] = seen_labels.get(v["label"], 0) + 1
    reported = set()
    for v in new_v:
        if v["label"] in reported:
            continue
        reported.add(v["label"])
        os.makedirs(rdir, exist_ok=True)
        hsh = hashlib.sha1(json.dumps(v, sort_keys=True, default=str).encode()).hexdigest()[:10]
        path = os.path.join(rdir, "%s-%s.json" % (v["label"].replace("/", "_").replace(" ", "_")[:80], hsh))
        json.dump(v, open(path, "w"), indent=1, default=str)
        print("VIOLATION property=%s replay=%s" % (pid, path))
        print("  label=%s engine=%s input=%s (%d failing job(s)/harness(es) with this label)" %
              (v["label"], v["engine"], v.get("model") or v.get("vals"), seen_labels[v["label"]]))
    for s in inconclusive:
        print("INCONCLUSIVE: " + s)

    wall = time.time() - t0
    evaluations = m_stats["queries"] + k_stats["checks"]
    nontrivial = m_stats["nontrivial"] + k_stats["nontrivial"]
    samples = m_stats["samples"] + k_stats["samples"]
    evidence = {
        "property_id": pid, "tier": tier, "seed": seed, "level": "model_checking",
        "coverage": {
            "evaluations": evaluations,
            "distinct_nontrivial": nontrivial,
            "rule": "evaluations = solver-decided obligations: Engine-M SMT queries (goals + panic/unwinding obligations; "
                    "cvc5, z3 cross-check) + CBMC properties decided inside the Kani harnesses run. distinct_nontrivial = "
                    "M queries of jobs whose reachability witness is satisfiable + CBMC properties not UNREACHABLE in "
                    "harnesses whose cover! witnesses were all satisfied.",
            "samples": samples or [{"note": "no job ran"}],
            "engine_M": {"jobs": m_stats["jobs"], "queries": m_stats["queries"], "holds": m_stats["holds"],
                         "reachability_witnesses_ok": m_stats["witness_ok"], "solver_seconds": round(m_stats["solver_s"], 1),
                         "functions_encoded_from_mir": sorted(m_stats["encoded"]),
                         "leaf_models_used": sorted(m_stats["models"]),
                         "translator_validation": {"calls_compared_encoding_vs_native": val_calls, "mismatches": len(val_mism)},
                         "mode": conf.get("m_opts", {}).get("mode", "debug")},
            "engine_K": {"harnesses": k_stats["harnesses"], "verified": k_stats["ok"], "cbmc_properties": k_stats["checks"],
                         "cover_witnesses_satisfied": k_stats["covers"], "wall_seconds": round(k_stats["solver_wall"], 1)},
            "bounds": conf.get("bounds", {}).get(tier, conf.get("bounds", {}).get("all", "")),
            "outside_the_claim": conf.get("outside", ""),
            "inconclusive": inconclusive[:20],
            "known_findings_hit": sorted(printed),
            "exhaustive": False,
        },
        "assumptions": conf.get("assumptions", []) + props.STANDING_ASSUMPTIONS,
        "wall_s": round(wall, 1),
        "violations": len(new_v),
    }
    os.makedirs(os.path.join(VERIF, "evidence"), exist_ok=True)
    json.dump(evidence, open(os.path.join(VERIF, "evidence", "%s.json" % pid), "w"), indent=1, default=str)
    print("%s tier=%s: M %d/%d queries hold in %d jobs; K %d/%d harnesses verified; %d new violation(s), %d known, %d inconclusive; %.0fs"
          % (pid, tier, m_stats["holds"], m_stats["queries"], m_stats["jobs"], k_stats["ok"], k_stats["harnesses"],
             len(new_v), len(printed), len(inconclusive), wall))
    if new_v:
        return 1
    if inconclusive:
        return 2
    return 0


def do_replay(pid, conf, path):
    v = json.load(open(path))
    if v.get("engine") == "K":
        short = v["harness"].split("::")[-1]
        any_rep = False
        for prof in ("dev", "release"):
            o = kani.native_replay(short, v["vals"], prof)
            print("replay %s [%s]: %s" % (short, prof, o))
            if o.get("outcome") in ("REPRODUCED", "PANIC"):
                any_rep = True
        if any_rep:
            print("VIOLATION property=%s replay=%s" % (pid, path))
            return 1
        return 0
    from mirsmt import spec as mspec
    built = mspec.build_native()
    modname, fname = v["spec"]
    fn = getattr(importlib.import_module(modname), fname)
    any_rep = False
    for prof in ("dev", "release"):
        if not built.get(prof):
            print("native build failed (%s)" % prof)
            continue
        o = mspec.replay_native(fn, v["params"], v["model"] or {}, v["query"], v["kind"], prof)
        print("replay %s [%s]: %s" % (v["query"], prof, o))
        if o[0] in ("reproduced", "panic"):
            any_rep = True
    if any_rep:
        print("VIOLATION property=%s replay=%s" % (pid, path))
        return 1
    return 0


if __name__ == "__main__":
    sys.exit(main())
