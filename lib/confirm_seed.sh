#!/bin/bash
# usage: confirm_seed.sh <seed-dir> [features]  -- independent confirmation in a scratch worktree (removed afterwards)
SEED="$1"; FEAT="$2"; NAME=$(basename "$SEED"); WT=/tmp/wt-confirm-$NAME
export CARGO_NET_OFFLINE=true
FA=""; [ -n "$FEAT" ] && FA="--features $FEAT"
git -C /repo worktree add -q --detach "$WT" HEAD || exit 9
cd "$WT"
res="seed=$NAME"
git apply "$SEED/patch.diff" && res="$res applies=yes" || res="$res applies=NO"
cargo build --offline --no-default-features --features compiled_data,verif_hooks >/dev/null 2>&1 && res="$res build_hooks=ok" || res="$res build_hooks=FAIL"
cargo test --workspace --no-fail-fast --offline > "$WT/suite.log" 2>&1 && res="$res suite_with_patch=pass" || res="$res suite_with_patch=FAIL"
if [ -n "$FEAT" ]; then
  cargo test --offline $FA > "$WT/suite2.log" 2>&1 && res="$res suite[$FEAT]_with_patch=pass" || res="$res suite[$FEAT]_with_patch=FAIL"
fi
mkdir -p tests && cp "$SEED/demo.rs" tests/demo_seed.rs
cargo test --offline $FA --test demo_seed > "$WT/demo_patched.log" 2>&1
if grep -q "test result: FAILED" "$WT/demo_patched.log"; then res="$res demo_with_patch=fails"; else res="$res demo_with_patch=NOT-A-TEST-FAILURE($(grep -c '^error' $WT/demo_patched.log) compile errors)"; fi
git checkout -q -- . 
cargo test --offline $FA --test demo_seed > "$WT/demo_clean.log" 2>&1
if grep -q "test result: ok. [1-9]" "$WT/demo_clean.log"; then res="$res demo_clean=passes"; else res="$res demo_clean=DOES-NOT-PASS"; fi
echo "$res"
cd / && git -C /repo worktree remove --force "$WT"
