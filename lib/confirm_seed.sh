#!/bin/bash
# usage: confirm_seed.sh <seed-dir>  -- independent confirmation in a scratch worktree (removed afterwards)
SEED="$1"; NAME=$(basename "$SEED"); WT=/tmp/wt-confirm-$NAME
export CARGO_NET_OFFLINE=true
git -C /repo worktree add -q --detach "$WT" HEAD || exit 9
cd "$WT"
res="seed=$NAME"
git apply "$SEED/patch.diff" && res="$res applies=yes" || res="$res applies=NO"
cargo build --offline --no-default-features --features compiled_data,verif_hooks >/dev/null 2>&1 && res="$res build_hooks=ok" || res="$res build_hooks=FAIL"
cargo test --workspace --no-fail-fast --offline > "$WT/suite.log" 2>&1 && res="$res suite_with_patch=pass" || res="$res suite_with_patch=FAIL"
mkdir -p tests && cp "$SEED/demo.rs" tests/demo_seed.rs
cargo test --offline --test demo_seed > "$WT/demo_patched.log" 2>&1 && res="$res demo_with_patch=PASS(unexpected)" || res="$res demo_with_patch=fails"
git checkout -q -- . 
cargo test --offline --test demo_seed > "$WT/demo_clean.log" 2>&1 && res="$res demo_clean=passes" || res="$res demo_clean=FAILS(unexpected)"
echo "$res"
cd / && git -C /repo worktree remove --force "$WT"
