import sys; sys.path.insert(0,'/verif/lib')
from mirsmt import spec
import importlib
mod=importlib.import_module(sys.argv[1])
import time
J=mod.jobs('quick',0)
sel=sys.argv[2] if len(sys.argv)>2 else ''
for j in J:
    name, fn, params = j[0],j[1],j[2]
    o = j[3] if len(j)>3 else None
    if sel not in name: continue
    opts={"timeout":120}
    if o: opts.update(o)
    r=spec.run_symbolic(name, fn, params, opts)
    print(name, r['error'], r['wall'])
    for q in r['queries']:
        if q['kind'] in ('goal','witness') or q['verdict']!='holds': print('   ',q['name'],q['verdict'],q['seconds'],q['cross'],q['model'],q['detail'][:120])
    print('   obligations', sum(1 for q in r['queries'] if q['kind'] not in('goal','witness')))
