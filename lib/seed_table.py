#!/usr/bin/env python3
"""Regenerates the seed table of DESIGN.md section 7 from /verif/seeded/*/meta.json."""
import glob, json, os, re
rows = []
for d in sorted(glob.glob("/verif/seeded/*/")):
    sid = os.path.basename(d.rstrip("/"))
    mp = os.path.join(d, "meta.json")
    if not os.path.exists(mp):
        rows.append("| %s | (not yet run through the checks) | | |" % sid)
        continue
    m = json.load(open(mp))
    what = m.get("summary") or re.sub(r"^#\s*Seed(?:ed change)? \S+:?\s*", "", m.get("needs_to_manifest", ""))
    what = re.split(r"\s+(?:##|\*\*File)", what)[0][:140]
    rows.append("| %s | %s | %s | %s |" % (sid, what.replace("|", "/"), m.get("detected", "?"), m.get("detected_by", "").replace("|", "/")))
table = "| seed | change | detected | by |\n|------|--------|----------|----|\n" + "\n".join(rows) + "\n"
p = "/verif/DESIGN.md"
s = open(p).read()
s = re.sub(r"<!-- SEED_TABLE_BEGIN -->.*<!-- SEED_TABLE_END -->", "<!-- SEED_TABLE_BEGIN -->\n" + table + "<!-- SEED_TABLE_END -->", s, flags=re.S)
open(p, "w").write(s)
print(len(rows), "seeds")
