//! C13 — wall-clock <-> instant conversion follows the zone's offsets and the options.
//! The zone is synthetic and chosen by the solver: one transition at a symbolic instant with symbolic offsets
//! before/after (gaps and overlaps of any size up to the stated bound).  The provider *is* the brute-force
//! definition, so the expected answers are computable inside the harness.
use crate::src::Src;
use crate::{vassert, vcover};
use temporal_rs::iso::{IsoDate, IsoDateTime, IsoTime};
use temporal_rs::options::Disambiguation;
use temporal_rs::provider::{TimeZoneOffset, TimeZoneProvider, TransitionDirection};
use temporal_rs::time::EpochNanoseconds;
use temporal_rs::verif_hooks as h;
use temporal_rs::{Calendar, Instant, TemporalError, TemporalResult, TimeZone};

pub const NS: i128 = 1_000_000_000;
pub const DAY_NS: i128 = 86_400 * NS;

/// one transition at `t` (epoch seconds): offset `before` seconds until t, `after` from t on
pub struct OneTransition {
    pub t: i64,
    pub before: i64,
    pub after: i64,
}

/// UTC epoch nanoseconds of a local date-time whose date is the fixed harness day plus `day_off`
pub fn local_ns(dt: &IsoDateTime, base_day: i64, base: &IsoDate) -> i128 {
    // the harness only produces dates within a few days of `base` in the same month
    let d = base_day + (dt.date.day as i64 - base.day as i64);
    let t = &dt.time;
    (d as i128) * DAY_NS
        + ((((t.hour as i128 * 60 + t.minute as i128) * 60 + t.second as i128) * 1000 + t.millisecond as i128) * 1000
            + t.microsecond as i128)
            * 1000
        + t.nanosecond as i128
}

impl OneTransition {
    pub fn offset_at(&self, epoch_ns: i128) -> i64 {
        if epoch_ns >= (self.t as i128) * NS {
            self.after
        } else {
            self.before
        }
    }
    /// instants whose wall-clock reading is `l` (local ns), ascending
    pub fn candidates(&self, l: i128) -> (Option<i128>, Option<i128>) {
        let c1 = l - (self.before as i128) * NS;
        let c2 = l - (self.after as i128) * NS;
        let tn = (self.t as i128) * NS;
        let a = if c1 < tn { Some(c1) } else { None };
        let b = if c2 >= tn { Some(c2) } else { None };
        (a, b)
    }
}

/// the provider handed to the library; BASE_DAY/BASE give the local-date <-> epoch-day anchor
pub struct SynProvider {
    pub zone: OneTransition,
    pub base_day: i64,
    pub base: IsoDate,
}

impl TimeZoneProvider for SynProvider {
    fn check_identifier(&self, _: &str) -> bool {
        true
    }
    fn get_named_tz_epoch_nanoseconds(&self, _: &str, local: IsoDateTime) -> TemporalResult<Vec<EpochNanoseconds>> {
        let l = local_ns(&local, self.base_day, &self.base);
        let (a, b) = self.zone.candidates(l);
        let mut v = Vec::new();
        // ascending order: a (earlier offset epoch) and b; in an overlap a < t <= b holds
        if let Some(x) = a {
            v.push(EpochNanoseconds::try_from(x)?);
        }
        if let Some(x) = b {
            v.push(EpochNanoseconds::try_from(x)?);
        }
        Ok(v)
    }
    fn get_named_tz_offset_nanoseconds(&self, _: &str, epoch_ns: i128) -> TemporalResult<TimeZoneOffset> {
        let after = epoch_ns >= (self.zone.t as i128) * NS;
        Ok(TimeZoneOffset {
            transition_epoch: if after { Some(self.zone.t) } else { None },
            offset: self.zone.offset_at(epoch_ns),
        })
    }
    fn get_named_tz_transition(&self, _: &str, _: i128, _: TransitionDirection) -> TemporalResult<Option<EpochNanoseconds>> {
        Err(TemporalError::general("not used"))
    }
}

fn disamb(d: u8) -> Disambiguation {
    match d {
        0 => Disambiguation::Compatible,
        1 => Disambiguation::Earlier,
        2 => Disambiguation::Later,
        _ => Disambiguation::Reject,
    }
}

/// 2000-06-15 is epoch day 11_123
pub const BASE_DAY: i64 = 11_123;

pub fn base_date() -> IsoDate {
    let mut d = IsoDate::default();
    d.year = 2000;
    d.month = 6;
    d.day = 15;
    d
}

pub fn any_zone<S: Src>(s: &mut S, max_offset_s: i64) -> OneTransition {
    // transition somewhere on 2000-06-15 (any second of that day)
    let t = BASE_DAY * 86_400 + s.i64_in(0, 86_399);
    let before = s.i64_in(-max_offset_s, max_offset_s);
    let after = s.i64_in(-max_offset_s, max_offset_s);
    OneTransition { t, before, after }
}

/// a local date-time on the harness day 2000-06-15 at nanosecond resolution (the transition happens at some second
/// of that same UTC day, so with offsets of several hours the local time can fall before, inside or after the
/// gap/overlap, and the +-3 h probes and shifts cross midnight in both directions)
pub fn any_local<S: Src>(s: &mut S) -> IsoDateTime {
    let mut d = base_date();
    d.day = 15;
    let t = crate::common::any_time(s);
    h::iso_date_time_new_unchecked(d, t)
}

/// GetEpochNanosecondsFor through PlainDateTime::to_zoned_date_time_with_provider
pub fn wall_to_instant<S: Src>(s: &mut S, max_offset_s: i64, whole_minutes: bool) {
    let zone = any_zone(s, max_offset_s);
    if whole_minutes {
        s.assume(zone.before % 60 == 0 && zone.after % 60 == 0);
    }
    wall_to_instant_in(s, zone)
}

/// the same check for one concrete zone (transition `t_s` seconds into 2000-06-15 UTC): every local time of that day
pub fn wall_to_instant_fixed<S: Src>(s: &mut S, t_s: i64, before: i64, after: i64) {
    wall_to_instant_in(s, OneTransition { t: BASE_DAY * 86_400 + t_s, before, after })
}

fn wall_to_instant_in<S: Src>(s: &mut S, zone: OneTransition) {
    let local = any_local(s);
    let dis = s.u8_in(0, 3);
    let base = base_date();
    let l = local_ns(&local, BASE_DAY, &base);
    let (a, b) = zone.candidates(l);
    let before_ns = (zone.before as i128) * NS;
    let after_ns = (zone.after as i128) * NS;
    let want: Option<i128> = match (a, b) {
        (Some(x), None) | (None, Some(x)) => Some(x),
        (Some(x), Some(y)) => match dis {
            0 | 1 => Some(x.min(y)),
            2 => Some(x.max(y)),
            _ => None,
        },
        (None, None) => match dis {
            // skipped time: forward by the gap under compatible/later, backward under earlier
            0 | 2 => Some(l - before_ns),
            1 => Some(l - after_ns),
            _ => None,
        },
    };
    vcover!(s, "C13.wall.unique", a.is_some() != b.is_some());
    vcover!(s, "C13.wall.overlap", a.is_some() && b.is_some());
    vcover!(s, "C13.wall.gap", a.is_none() && b.is_none());
    vcover!(s, "C13.wall.gap_longer_than_3h", a.is_none() && b.is_none() && zone.after - zone.before > 3 * 3600);
    let provider = SynProvider { zone, base_day: BASE_DAY, base };
    let tz = TimeZone::IanaIdentifier(String::from("Syn/Zone"));
    let pdt = h::plain_date_time_new_unchecked(local, Calendar::default());
    let got = pdt.to_zoned_date_time_with_provider(&tz, disamb(dis), &provider);
    match got {
        Ok(z) => {
            let g = z.epoch_nanoseconds().as_i128();
            match want {
                Some(w) => vassert!(s, "C13.wall.instant_per_disambiguation", g == w),
                None => vassert!(s, "C13.wall.reject_errors_on_ambiguous_or_skipped", false),
            }
            core::mem::forget(z);
        }
        Err(_) => vassert!(s, "C13.wall.resolvable_time_resolves", want.is_none()),
    }
    core::mem::forget(tz);
    core::mem::forget(pdt);
}

/// GetISODateTimeFor: the wall-clock reading of an instant is the instant shifted by the offset in force
pub fn instant_to_wall<S: Src>(s: &mut S, max_offset_s: i64) {
    let zone = any_zone(s, max_offset_s);
    let e = (BASE_DAY as i128) * DAY_NS + s.i128_in(0, DAY_NS - 1);
    let off = zone.offset_at(e);
    let base = base_date();
    let provider = SynProvider { zone, base_day: BASE_DAY, base };
    let tz = TimeZone::IanaIdentifier(String::from("Syn/Zone"));
    let Ok(en) = EpochNanoseconds::try_from(e) else { return };
    let zdt = Instant::from(en).to_zoned_date_time_iso(tz);
    let got = zdt.to_plain_datetime_with_provider(&provider);
    vcover!(s, "C13.read.after_transition", off == provider.zone.after && provider.zone.after != provider.zone.before);
    match got {
        Ok(p) => {
            let want = e + (off as i128) * NS;
            // compare through the fields: the date must stay within the harness month
            let day = want.div_euclid(DAY_NS);
            let tod = want.rem_euclid(DAY_NS);
            let d_ok = p.iso_year() == 2000 && p.iso_month() == 6 && (p.iso_day() as i128) == 15 + (day - BASE_DAY as i128);
            let t = (((((p.hour() as i128) * 60 + p.minute() as i128) * 60 + p.second() as i128) * 1000
                + p.millisecond() as i128) * 1000 + p.microsecond() as i128) * 1000 + p.nanosecond() as i128;
            vassert!(s, "C13.read.date_is_instant_plus_offset", d_ok);
            vassert!(s, "C13.read.time_is_instant_plus_offset", t == tod);
            core::mem::forget(p);
        }
        Err(_) => vassert!(s, "C13.read.never_fails_inside_range", false),
    }
    core::mem::forget(zdt);
}

/// InterpretISODateTimeOffset through ZonedDateTime::from_partial_with_provider: the explicit offset is used,
/// ignored, preferred or required to match (to the minute) according to the offset option
pub fn offset_option<S: Src>(s: &mut S, max_offset_s: i64) {
    use core::str::FromStr;
    use temporal_rs::options::OffsetDisambiguation;
    use temporal_rs::partial::{PartialDate, PartialTime, PartialZonedDateTime};
    let zone = any_zone(s, max_offset_s);
    let day = 15u8;
    let t = crate::common::any_time(s);
    let dis = s.u8_in(0, 3);
    let opt = s.u8_in(0, 3); // use, prefer, ignore, reject
    // the explicit offset: +-HH:MM
    let hh = s.u8_in(0, 3);
    let mm = s.u8_in(0, 59);
    let neg = s.bool();
    let text = [if neg { b'-' } else { b'+' }, b'0', b'0' + hh, b':', b'0' + mm / 10, b'0' + mm % 10];
    let Ok(off) = temporal_rs::UtcOffset::from_str(unsafe { core::str::from_utf8_unchecked(&text) }) else { return };
    let off_ns = (if neg { -1i128 } else { 1 }) * ((hh as i128) * 3600 + (mm as i128) * 60) * NS;
    let base = base_date();
    let mut d = base;
    d.day = day;
    let local = h::iso_date_time_new_unchecked(d, t);
    let l = local_ns(&local, BASE_DAY, &base);
    let (a, b) = zone.candidates(l);
    let before_ns = (zone.before as i128) * NS;
    let after_ns = (zone.after as i128) * NS;
    let by_disambiguation: Option<i128> = match (a, b) {
        (Some(x), None) | (None, Some(x)) => Some(x),
        (Some(x), Some(y)) => match dis { 0 | 1 => Some(x.min(y)), 2 => Some(x.max(y)), _ => None },
        (None, None) => match dis { 0 | 2 => Some(l - before_ns), 1 => Some(l - after_ns), _ => None },
    };
    // a candidate matches if its offset equals the given one exactly or after rounding to the minute (half away from zero)
    let matches = |c: i128| -> bool {
        let co = l - c;
        let m = 60 * NS;
        let rounded = if co >= 0 { (co + m / 2) / m * m } else { -((-co + m / 2) / m * m) };
        co == off_ns || rounded == off_ns
    };
    let matched: Option<i128> = match (a, b) {
        (Some(x), _) if matches(x) => Some(x),
        (_, Some(y)) if matches(y) => Some(y),
        _ => None,
    };
    let want: Option<i128> = match opt {
        0 => Some(l - off_ns),
        2 => by_disambiguation,
        1 => matched.or(by_disambiguation),
        _ => matched,
    };
    vcover!(s, "C13.offset.minute_rounded_match", matched.is_some() && a.map_or(true, |x| l - x != off_ns) && b.map_or(true, |y| l - y != off_ns));
    vcover!(s, "C13.offset.no_match", matched.is_none());
    let provider = SynProvider { zone, base_day: BASE_DAY, base };
    let mut pd = PartialDate::default();
    pd.year = Some(2000);
    pd.month = Some(6);
    pd.day = Some(day);
    let pt = PartialTime {
        hour: Some(t.hour), minute: Some(t.minute), second: Some(t.second),
        millisecond: Some(t.millisecond), microsecond: Some(t.microsecond), nanosecond: Some(t.nanosecond),
    };
    let partial = PartialZonedDateTime::new()
        .with_date(pd)
        .with_time(pt)
        .with_offset(Some(off))
        .with_timezone(Some(TimeZone::IanaIdentifier(String::from("Syn/Zone"))));
    let oo = match opt {
        0 => OffsetDisambiguation::Use,
        1 => OffsetDisambiguation::Prefer,
        2 => OffsetDisambiguation::Ignore,
        _ => OffsetDisambiguation::Reject,
    };
    let got = temporal_rs::ZonedDateTime::from_partial_with_provider(partial, None, Some(disamb(dis)), Some(oo), &provider);
    match got {
        Ok(z) => {
            let g = z.epoch_nanoseconds().as_i128();
            match want {
                Some(w) => {
                    if opt == 0 {
                        vassert!(s, "C13.offset.use_takes_the_given_offset", g == w);
                    } else {
                        vassert!(s, "C13.offset.instant_per_offset_option", g == w);
                    }
                }
                None => vassert!(s, "C13.offset.reject_errors_without_match", false),
            }
            core::mem::forget(z);
        }
        Err(_) => vassert!(s, "C13.offset.resolvable_input_resolves", want.is_none()),
    }
}

crate::harnesses! { REGISTRY;
    c13_wall_gap_1h [unwind 12] = |s| wall_to_instant_fixed(s, 7_200, 3_600, 7_200);
    c13_wall_gap_4h [unwind 12] = |s| wall_to_instant_fixed(s, 7_200, -3_600, 10_800);
    c13_wall_overlap_1h [unwind 12] = |s| wall_to_instant_fixed(s, 7_200, 7_200, 3_600);
    c13_wall_gap_at_midnight [unwind 12] = |s| wall_to_instant_fixed(s, 10_800, -10_800, -7_200);
    c13_offset_option_2h [unwind 12] = |s| offset_option(s, 2 * 3600);
    c13_wall_to_instant_3h [unwind 12] = |s| wall_to_instant(s, 3 * 3600, true);
    c13_wall_to_instant_26h [unwind 12] = |s| wall_to_instant(s, 26 * 3600, false);
    c13_instant_to_wall [unwind 12] = |s| instant_to_wall(s, 26 * 3600);
}
