//! C11 — formatting then parsing returns the same value; output is canonical (writers for all values, decoded by an
//! independent fixed-layout decoder; end-to-end print -> parse where the parser is the repo's own).
use crate::common::*;
use crate::src::Src;
use crate::{vassert, vcover};
use core::fmt::Write as _;
use core::str::FromStr;
use temporal_rs::options::{ArithmeticOverflow, Disambiguation, DisplayCalendar, DisplayOffset, DisplayTimeZone, OffsetDisambiguation, RoundingMode, Unit};
use temporal_rs::parsers::{FormattableDate, FormattableTime, Precision};
use temporal_rs::UtcOffset;
use writeable::Writeable;

pub struct Sink {
    pub buf: [u8; 40],
    pub len: usize,
    pub overflow: bool,
}

impl Sink {
    pub fn new() -> Self {
        Sink { buf: [0; 40], len: 0, overflow: false }
    }
}

impl core::fmt::Write for Sink {
    fn write_str(&mut self, s: &str) -> core::fmt::Result {
        for b in s.bytes() {
            if self.len < 40 {
                self.buf[self.len] = b;
                self.len += 1;
            } else {
                self.overflow = true;
            }
        }
        Ok(())
    }
}

fn digits(b: &[u8]) -> Option<u32> {
    let mut v: u32 = 0;
    for c in b {
        if !c.is_ascii_digit() {
            return None;
        }
        v = v * 10 + (*c - b'0') as u32;
    }
    Some(v)
}

/// canonical date text: YYYY-MM-DD for 0..=9999, else sign + 6 digits
pub fn date_writer<S: Src>(s: &mut S) {
    let y = s.i32_in(-999_999, 999_999);
    let m = s.u8_in(1, 12);
    let d = s.u8_in(1, 31);
    let mut k = Sink::new();
    let r = FormattableDate(y, m, d).write_to(&mut k);
    vassert!(s, "C11.date.writes", r.is_ok() && !k.overflow);
    let b = &k.buf[..k.len];
    let four = (0..=9999).contains(&y);
    vcover!(s, "C11.date.year_9999", y == 9999);
    vcover!(s, "C11.date.negative_year", y < 0);
    if four {
        vassert!(s, "C11.date.four_digit_year_for_0_to_9999", k.len == 10);
        if k.len == 10 {
            vassert!(s, "C11.date.decodes_to_same_value",
                digits(&b[0..4]) == Some(y as u32) && b[4] == b'-' && digits(&b[5..7]) == Some(m as u32)
                && b[7] == b'-' && digits(&b[8..10]) == Some(d as u32));
        }
    } else {
        vassert!(s, "C11.date.signed_six_digit_year_otherwise", k.len == 13);
        if k.len == 13 {
            let sign_ok = (b[0] == b'-') == (y < 0) && (b[0] == b'+' || b[0] == b'-');
            vassert!(s, "C11.date.decodes_to_same_value",
                sign_ok && digits(&b[1..7]) == Some(y.unsigned_abs()) && b[7] == b'-'
                && digits(&b[8..10]) == Some(m as u32) && b[10] == b'-' && digits(&b[11..13]) == Some(d as u32));
        }
    }
}

const POW10: [u32; 10] = [1, 10, 100, 1_000, 10_000, 100_000, 1_000_000, 10_000_000, 100_000_000, 1_000_000_000];

/// time text: HH:MM[:SS[.fraction]] with minimal digits under Auto, exactly n under Digit(n).
/// pk: 0..=9 Digit(n), 10 Auto, 11 Minute (concrete per harness; the value is symbolic)
pub fn time_writer<S: Src>(s: &mut S, pk: u8) {
    let h = s.u8_in(0, 23);
    let mi = s.u8_in(0, 59);
    let sec = s.u8_in(0, 59);
    let ns = s.u32_in(0, 999_999_999);
    let precision = match pk {
        10 => Precision::Auto,
        11 => Precision::Minute,
        n => Precision::Digit(n),
    };
    let mut k = Sink::new();
    let t = FormattableTime { hour: h, minute: mi, second: sec, nanosecond: ns, precision, include_sep: true };
    let r = t.write_to(&mut k);
    vassert!(s, "C11.time.writes", r.is_ok() && !k.overflow);
    let b = &k.buf[..k.len];
    let head_ok = k.len >= 5 && digits(&b[0..2]) == Some(h as u32) && b[2] == b':' && digits(&b[3..5]) == Some(mi as u32);
    vassert!(s, "C11.time.hour_minute", head_ok);
    if pk == 11 {
        vassert!(s, "C11.time.minute_precision_stops_after_minutes", k.len == 5);
        return;
    }
    let sec_ok = k.len >= 8 && b[5] == b':' && digits(&b[6..8]) == Some(sec as u32);
    vassert!(s, "C11.time.seconds", sec_ok);
    if !sec_ok {
        return;
    }
    // number of fraction digits written
    let nd = if k.len == 8 { 0 } else { k.len - 9 };
    vassert!(s, "C11.time.fraction_layout", k.len == 8 || (k.len >= 10 && k.len <= 18 && b[8] == b'.'));
    if k.len != 8 && !(k.len >= 10 && k.len <= 18 && b[8] == b'.') {
        return;
    }
    let frac = if nd == 0 { Some(0) } else { digits(&b[9..9 + nd]) };
    let Some(frac) = frac else {
        vassert!(s, "C11.time.fraction_is_digits", false);
        return;
    };
    let scale = POW10[9 - nd];
    // the digits written are the leading nd digits of the nine-digit nanosecond field (truncation, no rounding here)
    let lo = (frac as u64) * (scale as u64);
    vassert!(s, "C11.time.fraction_is_leading_digits", lo <= ns as u64 && (ns as u64) < lo + scale as u64);
    if pk == 10 {
        vcover!(s, "C11.time.auto_with_trailing_zeros", ns != 0 && ns % 1000 == 0);
        // auto: exact and minimal
        vassert!(s, "C11.time.auto_precision_is_exact", lo == ns as u64);
        vassert!(s, "C11.time.auto_precision_is_minimal", nd == 0 || b[9 + nd - 1] != b'0');
    } else {
        vassert!(s, "C11.time.requested_digit_count", nd == pk as usize);
    }
}

/// UtcOffset: to_string then from_str is the identity for every minute count in +-23:59
pub fn offset_round_trip<S: Src>(s: &mut S) {
    let hh = s.u8_in(0, 23);
    let mm = s.u8_in(0, 59);
    let neg = s.bool();
    let text = [if neg { b'-' } else { b'+' }, b'0' + hh / 10, b'0' + hh % 10, b':', b'0' + mm / 10, b'0' + mm % 10];
    let src = unsafe { core::str::from_utf8_unchecked(&text) };
    let Ok(o) = UtcOffset::from_str(src) else {
        vassert!(s, "C11.offset.canonical_text_parses", false);
        return;
    };
    match o.to_string() {
        Ok(t) => {
            let tb = t.as_bytes();
            let same = tb.len() == 6 && tb[1..] == text[1..] && (tb[0] == text[0] || (hh == 0 && mm == 0));
            vassert!(s, "C11.offset.print_of_parse_is_canonical_text", same);
            core::mem::forget(t);
        }
        Err(_) => vassert!(s, "C11.offset.prints", false),
    }
}

macro_rules! enum_round_trip {
    ($fname:ident, $ty:ty, $label:literal, [$($v:expr),+]) => {
        pub fn $fname<S: Src>(s: &mut S) {
            let all: &[$ty] = &[$($v),+];
            let i = s.u8_in(0, (all.len() - 1) as u8) as usize;
            let v = all[i];
            let mut k = Sink::new();
            let r = write!(k, "{}", v);
            let text = unsafe { core::str::from_utf8_unchecked(&k.buf[..k.len]) };
            let back = <$ty>::from_str(text);
            let mut k2 = Sink::new();
            let ok = match back {
                Ok(b) => {
                    let _ = write!(k2, "{}", b);
                    r.is_ok() && k2.len == k.len && k2.buf[..k2.len] == k.buf[..k.len] && (b as u8) == (v as u8)
                }
                Err(_) => false,
            };
            vassert!(s, $label, ok);
        }
    };
}

enum_round_trip!(unit_names, Unit, "C11.enum.unit_name_round_trips",
    [Unit::Auto, Unit::Nanosecond, Unit::Microsecond, Unit::Millisecond, Unit::Second, Unit::Minute, Unit::Hour, Unit::Day, Unit::Week, Unit::Month, Unit::Year]);
enum_round_trip!(mode_names, RoundingMode, "C11.enum.rounding_mode_name_round_trips",
    [RoundingMode::Ceil, RoundingMode::Floor, RoundingMode::Expand, RoundingMode::Trunc, RoundingMode::HalfCeil, RoundingMode::HalfFloor, RoundingMode::HalfExpand, RoundingMode::HalfTrunc, RoundingMode::HalfEven]);
enum_round_trip!(overflow_names, ArithmeticOverflow, "C11.enum.overflow_name_round_trips",
    [ArithmeticOverflow::Constrain, ArithmeticOverflow::Reject]);
enum_round_trip!(disambiguation_names, Disambiguation, "C11.enum.disambiguation_name_round_trips",
    [Disambiguation::Compatible, Disambiguation::Earlier, Disambiguation::Later, Disambiguation::Reject]);
enum_round_trip!(offset_disambiguation_names, OffsetDisambiguation, "C11.enum.offset_disambiguation_name_round_trips",
    [OffsetDisambiguation::Use, OffsetDisambiguation::Prefer, OffsetDisambiguation::Ignore, OffsetDisambiguation::Reject]);
enum_round_trip!(display_calendar_names, DisplayCalendar, "C11.enum.display_calendar_name_round_trips",
    [DisplayCalendar::Auto, DisplayCalendar::Always, DisplayCalendar::Never, DisplayCalendar::Critical]);
enum_round_trip!(display_offset_names, DisplayOffset, "C11.enum.display_offset_name_round_trips",
    [DisplayOffset::Auto, DisplayOffset::Never]);
enum_round_trip!(display_time_zone_names, DisplayTimeZone, "C11.enum.display_time_zone_name_round_trips",
    [DisplayTimeZone::Auto, DisplayTimeZone::Never, DisplayTimeZone::Critical]);

pub fn all_enums<S: Src>(s: &mut S) {
    unit_names(s);
    mode_names(s);
    overflow_names(s);
    disambiguation_names(s);
    offset_disambiguation_names(s);
    display_calendar_names(s);
    display_offset_names(s);
    display_time_zone_names(s);
}

/// duration text: every non-zero component is written with its designator, the sub-second part as a fraction of the
/// seconds; decoded by a streaming decoder (digits accumulate, a letter closes a component)
pub fn duration_writer<S: Src>(s: &mut S, digits_opt: u8, small: bool) {
    use temporal_rs::parsers::{FormattableDateDuration, FormattableDuration, FormattableTimeDuration};
    let neg = s.bool();
    let has_date = if small { false } else { s.bool() };
    let (y, mo, w, d) = if small { (0, 0, 0, 0) } else { (s.u32_in(0, 99), s.u32_in(0, 99), s.u32_in(0, 99), s.u32_in(0, 999) as u64) };
    let top = if small { 9 } else { 999 };
    let (h, mi, sec) = (s.u32_in(0, top) as u64, s.u32_in(0, top) as u64, s.u32_in(0, top) as u64);
    let ns = s.u32_in(0, 999_999_999);
    let precision = if digits_opt == 10 { Precision::Auto } else { Precision::Digit(digits_opt) };
    let date = if has_date { Some(FormattableDateDuration { years: y, months: mo, weeks: w, days: d }) } else { None };
    // the caller's contract (duration_to_formattable): the date part is present iff one of its fields is non-zero
    s.assume(has_date == (y != 0 || mo != 0 || w != 0 || d != 0));
    let f = FormattableDuration {
        precision,
        sign: if neg { temporal_rs::Sign::Negative } else { temporal_rs::Sign::Positive },
        date,
        time: Some(FormattableTimeDuration::Seconds(h, mi, sec, Some(ns))),
    };
    let mut k = Sink::new();
    let r = f.write_to(&mut k);
    vassert!(s, "C11.duration.writes", r.is_ok() && !k.overflow);
    // decode
    let (mut gy, mut gmo, mut gw, mut gd, mut gh, mut gmi, mut gs) = (0u64, 0u64, 0u64, 0u64, 0u64, 0u64, 0u64);
    let (mut acc, mut frac, mut fdig, mut in_frac, mut in_time, mut bad, mut gneg, mut seen_p) = (0u64, 0u64, 0u32, false, false, false, false, false);
    let scan = if small { 24 } else { 40 };
    if small {
        vassert!(s, "C11.duration.writes", k.len <= 24);
    }
    for i in 0..scan {
        if i >= k.len {
            break;
        }
        let c = k.buf[i];
        match c {
            b'-' if i == 0 => gneg = true,
            b'P' if !seen_p => seen_p = true,
            b'T' if !in_time => in_time = true,
            b'0'..=b'9' => {
                if in_frac {
                    frac = frac * 10 + (c - b'0') as u64;
                    fdig += 1;
                } else {
                    acc = acc * 10 + (c - b'0') as u64;
                }
            }
            b'.' if in_time && !in_frac => in_frac = true,
            b'Y' if !in_time => { gy = acc; acc = 0; }
            b'M' if !in_time => { gmo = acc; acc = 0; }
            b'W' if !in_time => { gw = acc; acc = 0; }
            b'D' if !in_time => { gd = acc; acc = 0; }
            b'H' if in_time => { gh = acc; acc = 0; }
            b'M' if in_time => { gmi = acc; acc = 0; }
            b'S' if in_time => { gs = acc; acc = 0; }
            _ => bad = true,
        }
    }
    let want_frac = if digits_opt == 10 { ns as u64 } else { ns as u64 / POW10[(9 - digits_opt) as usize] as u64 };
    // value of the written fraction in nanoseconds
    let got_frac_ns = if fdig == 0 || fdig > 9 { 0 } else { frac * POW10[(9 - fdig) as usize] as u64 };
    let want_frac_ns = if digits_opt == 10 { ns as u64 } else { want_frac * POW10[(9 - digits_opt) as usize] as u64 };
    vcover!(s, "C11.duration.fraction_with_zero_seconds_and_hours", sec == 0 && ns != 0 && h != 0);
    vcover!(s, "C11.duration.zero", !has_date && h == 0 && mi == 0 && sec == 0 && ns == 0);
    vassert!(s, "C11.duration.well_formed", seen_p && !bad && gneg == neg && acc == 0);
    vassert!(s, "C11.duration.date_components_round_trip", gy == y as u64 && gmo == mo as u64 && gw == w as u64 && gd == d);
    vassert!(s, "C11.duration.time_components_round_trip", gh == h && gmi == mi && gs == sec);
    vassert!(s, "C11.duration.sub_second_part_round_trips", got_frac_ns == want_frac_ns);
    if digits_opt != 10 {
        vassert!(s, "C11.duration.exactly_the_requested_fraction_digits", fdig == digits_opt as u32);
    } else {
        vassert!(s, "C11.duration.minimal_fraction_digits", fdig == 0 && ns == 0 || fdig > 0 && frac % 10 != 0);
    }
}

/// the sub-second part of a duration is never dropped: with automatic precision the text has a fraction iff the
/// nanoseconds are non-zero, and then ends with the seconds designator
pub fn duration_fraction_kept<S: Src>(s: &mut S) {
    use temporal_rs::parsers::{FormattableDuration, FormattableTimeDuration};
    let (h, mi, sec) = (s.u8_in(0, 9) as u64, s.u8_in(0, 9) as u64, s.u8_in(0, 9) as u64);
    let ns = s.u32_in(0, 999_999_999);
    let f = FormattableDuration { precision: Precision::Auto, sign: temporal_rs::Sign::Positive, date: None, time: Some(FormattableTimeDuration::Seconds(h, mi, sec, Some(ns))) };
    let mut k = Sink::new();
    let r = f.write_to(&mut k);
    vassert!(s, "C11.duration.writes", r.is_ok() && !k.overflow && k.len <= 24 && k.len >= 1);
    let mut dot = false;
    for i in 0..24 {
        if i < k.len && k.buf[i] == b'.' {
            dot = true;
        }
    }
    vcover!(s, "C11.duration.fraction_with_zero_seconds_and_hours", sec == 0 && ns != 0 && h != 0);
    vassert!(s, "C11.duration.sub_second_part_is_written_iff_non_zero", dot == (ns != 0));
    if ns != 0 && k.len >= 1 && k.len <= 24 {
        vassert!(s, "C11.duration.fraction_belongs_to_the_seconds", k.buf[k.len - 1] == b'S');
    }
}

crate::harnesses! { REGISTRY;
    c11_duration_fraction_kept [unwind 26] = |s| duration_fraction_kept(s);
    c11_duration_writer_small_auto [unwind 42] = |s| duration_writer(s, 10, true);
    c11_duration_writer_auto [unwind 42] = |s| duration_writer(s, 10, false);
    c11_duration_writer_digit3 [unwind 42] = |s| duration_writer(s, 3, false);
    c11_date_writer [unwind 12] = |s| date_writer(s);
    c11_time_writer_auto [unwind 12] = |s| time_writer(s, 10);
    c11_time_writer_minute [unwind 12] = |s| time_writer(s, 11);
    c11_time_writer_digit0 [unwind 12] = |s| time_writer(s, 0);
    c11_time_writer_digit3 [unwind 12] = |s| time_writer(s, 3);
    c11_time_writer_digit7 [unwind 12] = |s| time_writer(s, 7);
    c11_time_writer_digit9 [unwind 12] = |s| time_writer(s, 9);
    c11_offset_round_trip [unwind 12] = |s| offset_round_trip(s);
    c11_enum_names [unwind 14] = |s| all_enums(s);
}
