//! Symbolic-or-concrete value source shared by Kani proofs and the native replay binary.
//!
//! Under `cfg(kani)` every value is `kani::any()`, `assume` is `kani::assume`, `check`
//! is `kani::assert` (label = description) and `cover` is `kani::cover`.
//! In the native build values are read from the byte vectors of a Kani concrete
//! playback, a false assumption aborts the replay as "not reproduced" and a false
//! check is recorded by label.

pub trait Src {
    fn bytes<const N: usize>(&mut self) -> [u8; N];
    fn assume(&mut self, c: bool);
    fn check(&mut self, label: &'static str, c: bool);
    fn cover(&mut self, label: &'static str, c: bool);

    fn bool(&mut self) -> bool {
        self.bytes::<1>()[0] & 1 == 1
    }
    fn u8(&mut self) -> u8 {
        self.bytes::<1>()[0]
    }
    fn i8(&mut self) -> i8 {
        self.bytes::<1>()[0] as i8
    }
    fn u16(&mut self) -> u16 {
        u16::from_le_bytes(self.bytes())
    }
    fn i16(&mut self) -> i16 {
        i16::from_le_bytes(self.bytes())
    }
    fn u32(&mut self) -> u32 {
        u32::from_le_bytes(self.bytes())
    }
    fn i32(&mut self) -> i32 {
        i32::from_le_bytes(self.bytes())
    }
    fn u64(&mut self) -> u64 {
        u64::from_le_bytes(self.bytes())
    }
    fn i64(&mut self) -> i64 {
        i64::from_le_bytes(self.bytes())
    }
    fn u128(&mut self) -> u128 {
        u128::from_le_bytes(self.bytes())
    }
    fn i128(&mut self) -> i128 {
        i128::from_le_bytes(self.bytes())
    }
    fn f64(&mut self) -> f64 {
        f64::from_le_bytes(self.bytes())
    }
    /// value in lo..=hi (assumed)
    fn i32_in(&mut self, lo: i32, hi: i32) -> i32 {
        let v = self.i32();
        self.assume(lo <= v && v <= hi);
        v
    }
    fn i64_in(&mut self, lo: i64, hi: i64) -> i64 {
        let v = self.i64();
        self.assume(lo <= v && v <= hi);
        v
    }
    fn i128_in(&mut self, lo: i128, hi: i128) -> i128 {
        let v = self.i128();
        self.assume(lo <= v && v <= hi);
        v
    }
    fn u8_in(&mut self, lo: u8, hi: u8) -> u8 {
        let v = self.u8();
        self.assume(lo <= v && v <= hi);
        v
    }
    fn u16_in(&mut self, lo: u16, hi: u16) -> u16 {
        let v = self.u16();
        self.assume(lo <= v && v <= hi);
        v
    }
    fn u32_in(&mut self, lo: u32, hi: u32) -> u32 {
        let v = self.u32();
        self.assume(lo <= v && v <= hi);
        v
    }
}

#[cfg(kani)]
pub struct KaniSrc;

#[cfg(kani)]
impl Src for KaniSrc {
    #[inline(always)]
    fn bytes<const N: usize>(&mut self) -> [u8; N] {
        kani::any()
    }
    #[inline(always)]
    fn assume(&mut self, c: bool) {
        kani::assume(c)
    }
    // checks and covers go through the vassert!/vcover! macros (Kani wants literal labels)
    fn check(&mut self, _label: &'static str, c: bool) {
        kani::assert(c, "unlabelled check")
    }
    fn cover(&mut self, _label: &'static str, _c: bool) {}
    // scalar overrides: one `any` per value keeps the playback vectors scalar-sized
    fn bool(&mut self) -> bool {
        kani::any()
    }
    fn u8(&mut self) -> u8 {
        kani::any()
    }
    fn i8(&mut self) -> i8 {
        kani::any()
    }
    fn u16(&mut self) -> u16 {
        kani::any()
    }
    fn i16(&mut self) -> i16 {
        kani::any()
    }
    fn u32(&mut self) -> u32 {
        kani::any()
    }
    fn i32(&mut self) -> i32 {
        kani::any()
    }
    fn u64(&mut self) -> u64 {
        kani::any()
    }
    fn i64(&mut self) -> i64 {
        kani::any()
    }
    fn u128(&mut self) -> u128 {
        kani::any()
    }
    fn i128(&mut self) -> i128 {
        kani::any()
    }
    fn f64(&mut self) -> f64 {
        kani::any()
    }
}

/// Stub for `alloc::fmt::format` under Kani: error *messages* are not the subject.
#[cfg(kani)]
pub fn fmt_stub(_args: core::fmt::Arguments<'_>) -> String {
    String::new()
}

/// Outcome markers used by the native replay (panic payloads).
pub const ASSUME_FAILED: &str = "__VH_ASSUME_FAILED__";
pub const CHECK_FAILED: &str = "__VH_CHECK_FAILED__";

pub struct ReplaySrc {
    pub vals: Vec<Vec<u8>>,
    pub pos: usize,
    pub failed: Option<&'static str>,
    pub exhausted: bool,
}

impl ReplaySrc {
    pub fn new(vals: Vec<Vec<u8>>) -> Self {
        Self {
            vals,
            pos: 0,
            failed: None,
            exhausted: false,
        }
    }
}

impl Src for ReplaySrc {
    fn bytes<const N: usize>(&mut self) -> [u8; N] {
        let mut out = [0u8; N];
        if let Some(v) = self.vals.get(self.pos) {
            for (i, b) in v.iter().take(N).enumerate() {
                out[i] = *b;
            }
        } else {
            self.exhausted = true;
        }
        self.pos += 1;
        out
    }
    fn assume(&mut self, c: bool) {
        if !c {
            std::panic::panic_any(ASSUME_FAILED);
        }
    }
    fn check(&mut self, label: &'static str, c: bool) {
        if !c {
            self.failed = Some(label);
            std::panic::panic_any(CHECK_FAILED);
        }
    }
    fn cover(&mut self, _label: &'static str, _c: bool) {}
}

pub type ReplayFn = fn(&mut ReplaySrc);

/// Declares harnesses: a Kani proof per entry plus a registry for native replay.
#[macro_export]
macro_rules! harnesses {
    ($reg:ident; $( $name:ident [unwind $u:expr] = |$s:ident| $body:expr ;)*) => {
        $(
            #[cfg(kani)]
            #[kani::proof]
            #[kani::unwind($u)]
            #[kani::stub(alloc::fmt::format, $crate::src::fmt_stub)]
            fn $name() {
                let mut src = $crate::src::KaniSrc;
                let $s = &mut src;
                $body;
            }
        )*
        pub const $reg: &[(&str, $crate::src::ReplayFn)] = &[
            $( (stringify!($name), (|$s: &mut $crate::src::ReplaySrc| { $body; }) as $crate::src::ReplayFn), )*
        ];
    };
}

/// `vassert!(s, "Cxx.role", cond)`: a labelled proof obligation.
#[macro_export]
macro_rules! vassert {
    ($s:expr, $label:literal, $c:expr) => {{
        let c: bool = $c;
        #[cfg(kani)]
        {
            let _ = &$s;
            kani::assert(c, $label);
        }
        #[cfg(not(kani))]
        {
            $crate::src::Src::check($s, $label, c);
        }
    }};
}

/// `vcover!(s, "Cxx.role", cond)`: a reachability witness (vacuity guard).
#[macro_export]
macro_rules! vcover {
    ($s:expr, $label:literal, $c:expr) => {{
        let c: bool = $c;
        #[cfg(kani)]
        {
            let _ = &$s;
            kani::cover(c, $label);
        }
        #[cfg(not(kani))]
        {
            $crate::src::Src::cover($s, $label, c);
        }
    }};
}

/// Like `harnesses!` with additional `kani::stub` pairs per harness (the external ixdtf parser is replaced by a
/// nondeterministic record source under Kani; natively the same body renders the record as text and runs the real parser).
#[macro_export]
macro_rules! harnesses_stubbed {
    ($reg:ident; $( $name:ident [unwind $u:expr] [stub $orig:path => $repl:path] = |$s:ident| $body:expr ;)*) => {
        $(
            #[cfg(kani)]
            #[kani::proof]
            #[kani::unwind($u)]
            #[kani::stub(alloc::fmt::format, $crate::src::fmt_stub)]
            #[kani::stub($orig, $repl)]
            fn $name() {
                let mut src = $crate::src::KaniSrc;
                let $s = &mut src;
                $body;
            }
        )*
        pub const $reg: &[(&str, $crate::src::ReplayFn)] = &[
            $( (stringify!($name), (|$s: &mut $crate::src::ReplaySrc| { $body; }) as $crate::src::ReplayFn), )*
        ];
    };
}
