//! C12 — parsers accept exactly the grammar of their type (the repo-owned character-level parsers on
//! arbitrary short byte strings, with reference recognisers written from the Temporal grammar).
use crate::src::Src;
use crate::{vassert, vcover};
use core::str::FromStr;
use temporal_rs::error::ErrorKind;
use temporal_rs::{MonthCode, TimeZone, UtcOffset};

fn is_digit(b: u8) -> bool {
    b.is_ascii_digit()
}

fn two(a: u8, b: u8) -> i16 {
    ((a - b'0') as i16) * 10 + (b - b'0') as i16
}

/// UTCOffset[~SubMinutePrecision]:  Sign HH | Sign HH:MM | Sign HHMM   (HH 00-23, MM 00-59)
fn ref_offset(b: &[u8]) -> Option<i16> {
    if b.len() < 3 || !(b[0] == b'+' || b[0] == b'-') || !is_digit(b[1]) || !is_digit(b[2]) {
        return None;
    }
    let sign: i16 = if b[0] == b'+' { 1 } else { -1 };
    let hh = two(b[1], b[2]);
    if hh > 23 {
        return None;
    }
    let rest = &b[3..];
    let mm = match rest.len() {
        0 => 0,
        2 if is_digit(rest[0]) && is_digit(rest[1]) => two(rest[0], rest[1]),
        3 if rest[0] == b':' && is_digit(rest[1]) && is_digit(rest[2]) => two(rest[1], rest[2]),
        _ => return None,
    };
    if mm > 59 {
        return None;
    }
    Some(sign * (hh * 60 + mm))
}

/// the sub-minute forms Temporal allows for *offset strings* (not for identifiers): the crate accepts some of
/// them and drops the seconds; that is recorded as a known finding and kept apart from the main assertion
fn has_minute_prefix_then_more(b: &[u8]) -> bool {
    (b.len() > 5 && ref_offset(&b[..5]).is_some()) || (b.len() > 6 && ref_offset(&b[..6]).is_some())
}

/// "+HH:" - an hour followed by a dangling separator
fn hour_then_colon(b: &[u8]) -> bool {
    b.len() == 4 && ref_offset(&b[..3]).is_some() && b[3] == b':'
}

fn any_ascii<S: Src, const N: usize>(s: &mut S) -> ([u8; N], usize) {
    let len = s.u8_in(0, N as u8) as usize;
    let mut buf = [0u8; N];
    for i in 0..N {
        let c = s.u8();
        s.assume(c < 128);
        buf[i] = c;
    }
    (buf, len)
}

/// UtcOffset::from_str on every ASCII string of up to N bytes
pub fn offset_ascii<S: Src, const N: usize>(s: &mut S) {
    let (buf, len) = any_ascii::<S, N>(s);
    let bytes = &buf[..len];
    // ASCII, hence valid UTF-8
    let text = unsafe { core::str::from_utf8_unchecked(bytes) };
    let want = ref_offset(bytes);
    let got = UtcOffset::from_str(text);
    vcover!(s, "C12.offset.valid_reachable", want.is_some());
    vcover!(s, "C12.offset.with_colon_reachable", want.is_some() && len == 6);
    match got {
        Ok(o) => {
            let txt = o.to_string();
            match want {
                Some(w) => {
                    // value check through the canonical text form (the minutes field is not public)
                    let mut exp = [0u8; 6];
                    exp[0] = if w < 0 { b'-' } else { b'+' };
                    let a = w.unsigned_abs();
                    exp[1] = b'0' + (a / 600) as u8;
                    exp[2] = b'0' + ((a / 60) % 10) as u8;
                    exp[3] = b':';
                    exp[4] = b'0' + ((a % 60) / 10) as u8;
                    exp[5] = b'0' + (a % 10) as u8;
                    let ok = match &txt {
                        Ok(t) => {
                            let tb = t.as_bytes();
                            // "-00:00" and "+00:00" denote the same offset
                            tb.len() == 6 && tb[1..] == exp[1..] && (tb[0] == exp[0] || a == 0)
                        }
                        Err(_) => false,
                    };
                    vassert!(s, "C12.offset.value_of_minute_precision_form", ok);
                }
                None => {
                    if has_minute_prefix_then_more(bytes) {
                        vassert!(s, "C12.offset.rejects_sub_minute_suffix", false);
                    } else if hour_then_colon(bytes) {
                        vassert!(s, "C12.offset.rejects_hour_with_trailing_colon", false);
                    } else {
                        vassert!(s, "C12.offset.rejects_malformed", false);
                    }
                }
            }
        }
        Err(e) => {
            vassert!(s, "C12.offset.accepts_minute_precision_forms", want.is_none());
            vassert!(s, "C12.offset.rejection_is_range_error", e.kind() == ErrorKind::Range);
        }
    }
}

/// UtcOffset::from_str / TimeZone::try_from_identifier_str on "+" X ":00" / "+0" X with X one arbitrary
/// (possibly non-ASCII) scalar value: no panic, rejected unless X is an ASCII digit
pub fn offset_non_ascii<S: Src>(s: &mut S) {
    let cp = s.u32_in(0, 0x10FFFF);
    let Some(ch) = char::from_u32(cp) else { return };
    let pos = s.u8_in(0, 1);
    // "+" X "1:00"  or  "+1" X ":00", assembled in a fixed buffer
    let mut buf = [0u8; 12];
    buf[0] = b'+';
    let mut n = 1usize;
    if pos == 1 {
        buf[n] = b'1';
        n += 1;
    }
    n += ch.encode_utf8(&mut buf[n..n + 4]).len();
    if pos == 0 {
        buf[n] = b'1';
        n += 1;
    }
    buf[n] = b':';
    buf[n + 1] = b'0';
    buf[n + 2] = b'0';
    n += 3;
    let Ok(text) = core::str::from_utf8(&buf[..n]) else { return };
    let got = UtcOffset::from_str(text);
    // hours "X1" need X in 0..=2, hours "1X" any digit
    let want_ok = ch.is_ascii_digit() && (pos == 1 || ch <= '2');
    vcover!(s, "C12.offset_utf8.non_ascii_reachable", !ch.is_ascii());
    vcover!(s, "C12.offset_utf8.digit_reachable", want_ok);
    match got {
        Ok(_) => vassert!(s, "C12.offset_utf8.rejects_non_ascii_digits", want_ok),
        Err(e) => {
            vassert!(s, "C12.offset_utf8.accepts_ascii_digits", !want_ok);
            vassert!(s, "C12.offset_utf8.rejection_is_range_error", e.kind() == ErrorKind::Range);
        }
    }
}

/// MonthCode::try_from_utf8 on every byte string of up to 5 bytes: accepted iff M dd [L]
pub fn month_code<S: Src>(s: &mut S) {
    let len = s.u8_in(0, 5) as usize;
    let mut buf = [0u8; 5];
    for i in 0..5 {
        buf[i] = s.u8();
    }
    let b = &buf[..len];
    let want = (len == 3 || len == 4)
        && b[0] == b'M'
        && is_digit(b[1])
        && is_digit(b[2])
        && (len == 3 || b[3] == b'L');
    let got = MonthCode::try_from_utf8(b);
    vcover!(s, "C12.month_code.valid_reachable", want);
    vcover!(s, "C12.month_code.leap_reachable", want && len == 4);
    match got {
        Ok(mc) => {
            vassert!(s, "C12.month_code.rejects_malformed", want);
            if want {
                vassert!(s, "C12.month_code.month_number", mc.to_month_integer() == (b[1] - b'0') * 10 + (b[2] - b'0'));
                vassert!(s, "C12.month_code.leap_flag", mc.is_leap_month() == (len == 4));
                let t = mc.as_str().as_bytes();
                vassert!(s, "C12.month_code.round_trips_as_text", t.len() == len && t[0] == b[0] && t[1] == b[1] && t[2] == b[2]);
            }
        }
        Err(e) => {
            vassert!(s, "C12.month_code.accepts_well_formed", !want);
            vassert!(s, "C12.month_code.rejection_is_range_error", e.kind() == ErrorKind::Range);
        }
    }
}

/// TimeZone::try_from_identifier_str on ASCII strings of up to N bytes: offsets per ref_offset, "Z", or an
/// IANA-shaped name (components of [A-Za-z._][A-Za-z0-9._+-]* separated by '/')
pub fn tz_identifier<S: Src, const N: usize>(s: &mut S) {
    let (buf, len) = any_ascii::<S, N>(s);
    let bytes = &buf[..len];
    let text = unsafe { core::str::from_utf8_unchecked(bytes) };
    let lead = |c: u8| c.is_ascii_alphabetic() || c == b'.' || c == b'_';
    let tzc = |c: u8| lead(c) || c.is_ascii_digit() || c == b'+' || c == b'-';
    let mut iana = len > 0;
    let mut at_start = true;
    for i in 0..len {
        let c = bytes[i];
        if at_start {
            if !lead(c) {
                iana = false;
            }
            at_start = false;
        } else if c == b'/' {
            at_start = true;
        } else if !tzc(c) {
            iana = false;
        }
    }
    if at_start {
        iana = false; // empty string or trailing '/'
    }
    let off = ref_offset(bytes);
    let signed = len > 0 && (bytes[0] == b'+' || bytes[0] == b'-');
    let got = TimeZone::try_from_identifier_str(text);
    vcover!(s, "C12.tzid.iana_reachable", iana);
    vcover!(s, "C12.tzid.offset_reachable", off.is_some());
    match got {
        Ok(tz) => {
            match &tz {
                TimeZone::UtcOffset(_) => {
                    if off.is_none() && !(len == 1 && bytes[0] == b'Z') {
                        if has_minute_prefix_then_more(bytes) {
                            vassert!(s, "C12.tzid.rejects_sub_minute_offset_identifier", false);
                        } else if hour_then_colon(bytes) {
                            vassert!(s, "C12.tzid.rejects_hour_with_trailing_colon", false);
                        } else {
                            vassert!(s, "C12.tzid.rejects_malformed_offset", false);
                        }
                    }
                }
                TimeZone::IanaIdentifier(name) => {
                    vassert!(s, "C12.tzid.rejects_malformed_name", iana && !signed);
                    vassert!(s, "C12.tzid.name_kept_verbatim", name.as_bytes() == bytes);
                }
            }
            core::mem::forget(tz);
        }
        Err(e) => {
            vassert!(s, "C12.tzid.accepts_offsets_and_names", off.is_none() && !(iana && !signed));
            vassert!(s, "C12.tzid.rejection_is_range_error", e.kind() == ErrorKind::Range);
        }
    }
}

crate::harnesses! { REGISTRY;
    c12_offset_ascii_6 [unwind 12] = |s| offset_ascii::<_, 6>(s);
    c12_offset_ascii_8 [unwind 14] = |s| offset_ascii::<_, 8>(s);
    c12_offset_non_ascii [unwind 12] = |s| offset_non_ascii(s);
    c12_month_code [unwind 8] = |s| month_code(s);
    c12_tz_identifier_3 [unwind 8] = |s| tz_identifier::<_, 3>(s);
    c12_tz_identifier_4 [unwind 9] = |s| tz_identifier::<_, 4>(s);
    c12_tz_identifier_5 [unwind 10] = |s| tz_identifier::<_, 5>(s);
}
