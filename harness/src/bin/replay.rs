//! Native replay: `replay <harness> <json-ish file of byte vectors>`.
//! File format: one line per value, comma-separated decimal bytes.
//! Prints one of: REPRODUCED label=<label> | PANIC msg=<..> | NOT_REPRODUCED reason=<..>
use std::panic;
use vharness::src::{ReplaySrc, ASSUME_FAILED, CHECK_FAILED};

fn main() {
    let args: Vec<String> = std::env::args().collect();
    if args.len() == 2 && args[1] == "--list" {
        for (n, _) in vharness::registry() {
            println!("{n}");
        }
        return;
    }
    if args.len() != 3 {
        eprintln!("usage: replay <harness> <vals-file> | --list");
        std::process::exit(2);
    }
    let name = &args[1];
    let text = std::fs::read_to_string(&args[2]).expect("read vals");
    let vals: Vec<Vec<u8>> = text
        .lines()
        .filter(|l| !l.trim().is_empty() && !l.trim_start().starts_with('#'))
        .map(|l| {
            l.split(',')
                .filter(|x| !x.trim().is_empty())
                .map(|x| x.trim().parse::<u8>().expect("byte"))
                .collect()
        })
        .collect();
    let Some((_, f)) = vharness::registry().into_iter().find(|(n, _)| n == name) else {
        println!("NOT_REPRODUCED reason=unknown-harness");
        std::process::exit(2);
    };
    let mut src = ReplaySrc::new(vals);
    // remember where a panic came from: a panic raised inside this harness crate is a harness bug, not a finding
    static LOC: std::sync::Mutex<String> = std::sync::Mutex::new(String::new());
    panic::set_hook(Box::new(|info| {
        if let Some(l) = info.location() {
            if let Ok(mut g) = LOC.lock() {
                *g = format!("{}:{}", l.file(), l.line());
            }
        }
    }));
    let r = panic::catch_unwind(panic::AssertUnwindSafe(|| f(&mut src)));
    match r {
        Ok(()) => {
            println!("NOT_REPRODUCED reason=completed-without-failure exhausted={}", src.exhausted);
            std::process::exit(3);
        }
        Err(p) => {
            if let Some(m) = p.downcast_ref::<&str>() {
                if *m == ASSUME_FAILED {
                    println!("NOT_REPRODUCED reason=assumption-false");
                    std::process::exit(3);
                }
                if *m == CHECK_FAILED {
                    println!("REPRODUCED label={}", src.failed.unwrap_or("?"));
                    std::process::exit(1);
                }
                println!("PANIC loc={} msg={}", LOC.lock().map(|g| g.clone()).unwrap_or_default(), m.replace('\n', " "));
                std::process::exit(1);
            }
            if let Some(m) = p.downcast_ref::<String>() {
                println!("PANIC loc={} msg={}", LOC.lock().map(|g| g.clone()).unwrap_or_default(), m.replace('\n', " "));
                std::process::exit(1);
            }
            println!("PANIC loc={} msg=<non-string payload>", LOC.lock().map(|g| g.clone()).unwrap_or_default());
            std::process::exit(1);
        }
    }
}
