//! Native runner for Engine-M replay / translator validation:
//! `mrun <hook> <int args...>` calls the real function (through temporal_rs::verif_hooks or the
//! public API) and prints its result as whitespace-separated integers (`PANIC <msg>` on panic).
use std::num::NonZeroU128;
use temporal_rs::iso::{IsoDate, IsoTime};
use temporal_rs::options::{ArithmeticOverflow, RoundingIncrement, RoundingMode, RoundingOptions, Unit};
use temporal_rs::Instant;
use temporal_rs::verif_hooks as h;

fn mode(m: i128) -> RoundingMode {
    vharness::common::mode_of(m as u8)
}

fn unit(u: i128) -> Unit {
    vharness::common::unit_of(u as u8)
}

fn time6(a: &[i128]) -> IsoTime {
    let mut t = IsoTime::default();
    t.hour = a[0] as u8;
    t.minute = a[1] as u8;
    t.second = a[2] as u8;
    t.millisecond = a[3] as u16;
    t.microsecond = a[4] as u16;
    t.nanosecond = a[5] as u16;
    t
}

fn date3(a: &[i128]) -> IsoDate {
    let mut d = IsoDate::default();
    d.year = a[0] as i32;
    d.month = a[1] as u8;
    d.day = a[2] as u8;
    d
}

fn fmt_time(t: &IsoTime) -> String {
    format!(
        "{} {} {} {} {} {}",
        t.hour, t.minute, t.second, t.millisecond, t.microsecond, t.nanosecond
    )
}

fn overflow(v: i128) -> ArithmeticOverflow {
    if v == 0 { ArithmeticOverflow::Constrain } else { ArithmeticOverflow::Reject }
}

fn run(name: &str, a: &[i128]) -> String {
    match name {
        "epoch_days_from_gregorian_date" => {
            format!("{}", h::epoch_days_from_gregorian_date(a[0] as i32, a[1] as u8, a[2] as u8))
        }
        "ymd_from_epoch_milliseconds" => {
            let (y, m, d) = h::ymd_from_epoch_milliseconds(a[0] as i64);
            format!("{y} {m} {d}")
        }
        "iso_days_in_month" => format!("{}", h::iso_days_in_month(a[0] as i32, a[1] as u8)),
        "mathematical_days_in_year" => format!("{}", h::mathematical_days_in_year(a[0] as i32)),
        "epoch_days_for_year" => format!("{}", h::epoch_days_for_year(a[0] as i32)),
        "iso_date_to_epoch_days" => {
            format!("{}", h::iso_date_to_epoch_days(a[0] as i32, a[1] as i32, a[2] as i32))
        }
        "iso_date_balance" => {
            let d = h::iso_date_balance(a[0] as i32, a[1] as i32, a[2] as i32);
            format!("{} {} {}", d.year, d.month, d.day)
        }
        "iso_time_balance" => {
            let (days, t) = h::iso_time_balance(
                a[0] as i64, a[1] as i64, a[2] as i64, a[3] as i64, a[4] as i64, a[5] as i64,
            );
            format!(
                "{} {} {} {} {} {} {}",
                days, t.hour, t.minute, t.second, t.millisecond, t.microsecond, t.nanosecond
            )
        }
        "year_month_within_limits" => {
            format!("{}", h::year_month_within_limits(a[0] as i32, a[1] as u8) as u8)
        }
        "iso_date_new_with_overflow" => {
            let ov = if a[3] == 0 { ArithmeticOverflow::Constrain } else { ArithmeticOverflow::Reject };
            match h::iso_date_new_with_overflow(a[0] as i32, a[1] as u8, a[2] as u8, ov) {
                Ok(d) => format!("0 {} {} {}", d.year, d.month, d.day),
                Err(e) => format!("1 {}", e.kind() as u8),
            }
        }
        "round_i128" => match h::round_i128(a[0], NonZeroU128::new(a[1] as u128).unwrap(), mode(a[2])) {
            Ok(v) => format!("0 {v}"),
            Err(e) => format!("1 {}", e.kind() as u8),
        },
        "iso_time_round" => {
            // h m s ms us ns unit inc mode
            let Ok(inc) = RoundingIncrement::try_new(a[7] as u32) else { return "1 2".into() };
            match h::iso_time_round(time6(a), unit(a[6]), inc, mode(a[8])) {
                Ok((d, t)) => format!("0 {} {}", d, fmt_time(&t)),
                Err(e) => format!("1 {}", e.kind() as u8),
            }
        }
        "iso_time_add_nanoseconds" => {
            let (d, t) = h::iso_time_add_nanoseconds(time6(a), a[6]);
            format!("{} {}", d, fmt_time(&t))
        }
        "norm_round" => {
            let Ok(inc) = RoundingIncrement::try_new(a[2] as u32) else { return "1 2".into() };
            match h::norm_round(a[0], unit(a[1]), inc, mode(a[3])) {
                Ok(v) => format!("0 {v}"),
                Err(e) => format!("1 {}", e.kind() as u8),
            }
        }
        "instant_round" => {
            // ns unit inc mode  (public API)
            let Ok(i) = Instant::try_new(a[0]) else { return "1 2".into() };
            let Ok(inc) = RoundingIncrement::try_new(a[2] as u32) else { return "1 2".into() };
            let mut o = RoundingOptions::default();
            o.largest_unit = None;
            o.smallest_unit = Some(unit(a[1]));
            o.increment = Some(inc);
            o.rounding_mode = Some(mode(a[3]));
            match i.round(o) {
                Ok(v) => format!("0 {}", v.as_i128()),
                Err(e) => format!("1 {}", e.kind() as u8),
            }
        }
        "iso_date_time_from_epoch_nanos" => match h::iso_date_time_from_epoch_nanos(a[0], a[1] as i64) {
            Ok(dt) => format!("0 {} {} {} {}", dt.date.year, dt.date.month, dt.date.day, fmt_time(&dt.time)),
            Err(e) => format!("1 {}", e.kind() as u8),
        },
        "iso_date_time_balance" => {
            let dt = h::iso_date_time_balance(
                a[0] as i32, a[1] as i32, a[2] as i32, a[3] as i64, a[4] as i64, a[5] as i64,
                a[6] as i64, a[7] as i64, a[8] as i64,
            );
            format!("{} {} {} {}", dt.date.year, dt.date.month, dt.date.day, fmt_time(&dt.time))
        }
        "iso_date_add_date_duration" => {
            // y m d  years months weeks days overflow
            match h::iso_date_add_date_duration(
                date3(a), a[3] as f64, a[4] as f64, a[5] as f64, a[6] as f64, overflow(a[7]),
            ) {
                Ok(d) => format!("0 {} {} {}", d.year, d.month, d.day),
                Err(e) => format!("1 {}", e.kind() as u8),
            }
        }
        "iso_date_diff" => match h::iso_date_diff(date3(a), date3(&a[3..]), unit(a[6])) {
            Ok((y, m, w, d)) => format!("0 {} {} {} {}", y as i64, m as i64, w as i64, d as i64),
            Err(e) => format!("1 {}", e.kind() as u8),
        },
        "iso_date_time_within_limits" => {
            let dt = h::iso_date_time_new_unchecked(date3(a), time6(&a[3..]));
            format!("{}", h::iso_date_time_within_limits(&dt) as u8)
        }
        "epoch_ns_try_from" => match temporal_rs::time::EpochNanoseconds::try_from(a[0]) {
            Ok(v) => format!("0 {}", v.as_i128()),
            Err(e) => format!("1 {}", e.kind() as u8),
        },
        "instant_from_epoch_ms" => match Instant::from_epoch_milliseconds(a[0] as i64) {
            Ok(v) => format!("0 {}", v.as_i128()),
            Err(e) => format!("1 {}", e.kind() as u8),
        },
        "unit_max_increment" => match unit(a[0]).to_maximum_rounding_increment() {
            Some(v) => format!("1 {v}"),
            None => "0".to_string(),
        },
        "instant_epoch_ms" => match Instant::try_new(a[0]) {
            Ok(i) => format!("{}", i.epoch_milliseconds()),
            Err(_) => "PANIC invalid instant".to_string(),
        },
        "norm_from_nanosecond_difference" => match h::norm_from_nanosecond_difference(a[0], a[1]) {
            Ok(v) => format!("0 {v}"),
            Err(e) => format!("1 {}", e.kind() as u8),
        },
        "norm_add_days" => match h::norm_add_days(a[0], a[1] as i64) {
            Ok(v) => format!("0 {v}"),
            Err(e) => format!("1 {}", e.kind() as u8),
        },
        "instant_add" => {
            use temporal_rs::primitive::FiniteF64 as F;
            let f = |x: i128| F::try_from(x as f64).unwrap_or_default();
            let Ok(i) = Instant::try_new(a[0]) else { return "1 2".into() };
            let d = match temporal_rs::Duration::new(F::default(), F::default(), F::default(), F::default(),
                f(a[1]), f(a[2]), f(a[3]), f(a[4]), f(a[5]), f(a[6])) {
                Ok(d) => d,
                Err(e) => return format!("1 {}", e.kind() as u8),
            };
            match i.add(d) {
                Ok(v) => format!("0 {}", v.as_i128()),
                Err(e) => format!("1 {}", e.kind() as u8),
            }
        }
        "plain_time_add" => {
            use temporal_rs::primitive::FiniteF64 as F;
            let f = |x: i128| F::try_from(x as f64).unwrap_or_default();
            let t = time6(a);
            let Ok(pt) = temporal_rs::PlainTime::try_new(t.hour, t.minute, t.second, t.millisecond, t.microsecond, t.nanosecond) else { return "1 2".into() };
            let td = match temporal_rs::TimeDuration::new(f(a[6]), f(a[7]), f(a[8]), f(a[9]), f(a[10]), f(a[11])) {
                Ok(d) => d,
                Err(e) => return format!("1 {}", e.kind() as u8),
            };
            match pt.add_time_duration(&td) {
                Ok(r) => format!("0 {} {} {} {} {} {}", r.hour(), r.minute(), r.second(), r.millisecond(), r.microsecond(), r.nanosecond()),
                Err(e) => format!("1 {}", e.kind() as u8),
            }
        }
        "iso_date_time_round" => {
            let Ok(inc) = RoundingIncrement::try_new(a[10] as u32) else { return "1 2".into() };
            let dt = h::iso_date_time_new_unchecked(date3(a), time6(&a[3..]));
            match h::iso_date_time_round(dt, unit(a[9]), inc, mode(a[11])) {
                Ok(r) => format!("0 {} {} {} {}", r.date.year, r.date.month, r.date.day, fmt_time(&r.time)),
                Err(e) => format!("1 {}", e.kind() as u8),
            }
        }
        "zdt_wrapper_vs_twin" => {
            // which ns offset_minutes -> "<wrapper value> <twin value>"  (-1 encodes an error)
            use temporal_rs::provider::NeverProvider;
            let Ok(en) = temporal_rs::time::EpochNanoseconds::try_from(a[1]) else { return "PANIC bad instant".into() };
            let tz = temporal_rs::TimeZone::UtcOffset(h::utc_offset_from_minutes(a[2] as i16));
            let z = Instant::from(en).to_zoned_date_time_iso(tz);
            let p = NeverProvider;
            let v = |r: temporal_rs::TemporalResult<i64>| r.unwrap_or(-1);
            let (w, t) = match a[0] {
                0 => (v(z.year().map(i64::from)), v(z.year_with_provider(&p).map(i64::from))),
                1 => (v(z.month().map(i64::from)), v(z.month_with_provider(&p).map(i64::from))),
                2 => (v(z.day().map(i64::from)), v(z.day_with_provider(&p).map(i64::from))),
                3 => (v(z.hour().map(i64::from)), v(z.hour_with_provider(&p).map(i64::from))),
                4 => (v(z.minute().map(i64::from)), v(z.minute_with_provider(&p).map(i64::from))),
                5 => (v(z.second().map(i64::from)), v(z.second_with_provider(&p).map(i64::from))),
                6 => (v(z.millisecond().map(i64::from)), v(z.millisecond_with_provider(&p).map(i64::from))),
                7 => (v(z.microsecond().map(i64::from)), v(z.microsecond_with_provider(&p).map(i64::from))),
                8 => (v(z.nanosecond().map(i64::from)), v(z.nanosecond_with_provider(&p).map(i64::from))),
                9 => (v(z.day_of_week().map(i64::from)), v(z.day_of_week_with_provider(&p).map(i64::from))),
                10 => (v(z.day_of_year().map(i64::from)), v(z.day_of_year_with_provider(&p).map(i64::from))),
                11 => (v(z.week_of_year().map(|x| x.map(i64::from).unwrap_or(-2))), v(z.week_of_year_with_provider(&p).map(|x| x.map(i64::from).unwrap_or(-2)))),
                12 => (v(z.year_of_week().map(|x| x.map(i64::from).unwrap_or(-2))), v(z.year_of_week_with_provider(&p).map(|x| x.map(i64::from).unwrap_or(-2)))),
                13 => (v(z.days_in_week().map(i64::from)), v(z.days_in_week_with_provider(&p).map(i64::from))),
                14 => (v(z.days_in_month().map(i64::from)), v(z.days_in_month_with_provider(&p).map(i64::from))),
                15 => (v(z.days_in_year().map(i64::from)), v(z.days_in_year_with_provider(&p).map(i64::from))),
                16 => (v(z.months_in_year().map(i64::from)), v(z.months_in_year_with_provider(&p).map(i64::from))),
                17 => (v(z.in_leap_year().map(i64::from)), v(z.in_leap_year_with_provider(&p).map(i64::from))),
                18 => (v(z.hours_in_day().map(i64::from)), v(z.hours_in_day_with_provider(&p).map(i64::from))),
                19 => (v(z.offset_nanoseconds().map(|x| x as i64)), v(z.offset_nanoseconds_with_provider(&p).map(|x| x as i64))),
                20 | 21 => {
                    // since / until another instant (2024-04-30T00:00Z) with largestUnit month: months * 1000 + days
                    let other = Instant::from(temporal_rs::time::EpochNanoseconds::try_from(1_714_435_200_000_000_000i128).unwrap())
                        .to_zoned_date_time_iso(temporal_rs::TimeZone::UtcOffset(h::utc_offset_from_minutes(a[2] as i16)));
                    let mut st = temporal_rs::options::DifferenceSettings::default();
                    st.largest_unit = Some(temporal_rs::options::Unit::Month);
                    let enc = |r: temporal_rs::TemporalResult<temporal_rs::Duration>| r.map(|d| d.months().as_inner() as i64 * 1000 + d.days().as_inner() as i64).unwrap_or(-1);
                    if a[0] == 20 { (enc(z.since(&other, st)), enc(z.since_with_provider(&other, st, &p))) } else { (enc(z.until(&other, st)), enc(z.until_with_provider(&other, st, &p))) }
                }
                22 => (v(z.start_of_day().map(|x| x.epoch_nanoseconds().as_i128() as i64)), v(z.start_of_day_with_provider(&p).map(|x| x.epoch_nanoseconds().as_i128() as i64))),
                _ => {
                    let f = |x: i32| temporal_rs::primitive::FiniteF64::from(x);
                    let zf = temporal_rs::primitive::FiniteF64::default();
                    let d = temporal_rs::Duration::new(zf, f(1), zf, f(1), f(25), zf, zf, zf, zf, zf).unwrap();
                    let enc = |r: temporal_rs::TemporalResult<temporal_rs::ZonedDateTime>| r.map(|x| x.epoch_nanoseconds().as_i128() as i64).unwrap_or(-1);
                    if a[0] == 23 { (enc(z.add(&d, None)), enc(z.add_with_provider(&d, None, &p))) } else { (enc(z.subtract(&d, None)), enc(z.subtract_with_provider(&d, None, &p))) }
                }
            };
            format!("{w} {t}")
        }
        "plain_date_time_add" => {
            // y m d h mi s ms us ns  years months weeks days norm_ns overflow
            use temporal_rs::primitive::FiniteF64 as F;
            let f = |x: i128| F::try_from(x as f64).unwrap_or_default();
            let dt = h::iso_date_time_new_unchecked(date3(a), time6(&a[3..]));
            let pdt = h::plain_date_time_new_unchecked(dt, temporal_rs::Calendar::default());
            let z = F::default();
            let d = match temporal_rs::Duration::new(f(a[9]), f(a[10]), f(a[11]), f(a[12]), z, z, z, z, z, f(a[13])) {
                Ok(d) => d,
                Err(e) => return format!("1 {}", e.kind() as u8),
            };
            match pdt.add(&d, Some(overflow(a[14]))) {
                Ok(r) => format!("0 {} {} {} {} {} {} {} {} {}", r.iso_year(), r.iso_month(), r.iso_day(), r.hour(), r.minute(), r.second(), r.millisecond(), r.microsecond(), r.nanosecond()),
                Err(e) => format!("1 {}", e.kind() as u8),
            }
        }
        "syn_zone_wall_to_instant" => {
            // t before after  h mi s ms us ns  dis   (local date fixed to 2000-06-15)
            use vharness::c13::{base_date, OneTransition, SynProvider, BASE_DAY};
            let zone = OneTransition { t: a[0] as i64, before: a[1] as i64, after: a[2] as i64 };
            let provider = SynProvider { zone, base_day: BASE_DAY, base: base_date() };
            let dt = h::iso_date_time_new_unchecked(base_date(), time6(&a[3..]));
            let pdt = h::plain_date_time_new_unchecked(dt, temporal_rs::Calendar::default());
            let tz = temporal_rs::TimeZone::IanaIdentifier("Syn/Zone".into());
            let dis = match a[9] { 0 => temporal_rs::options::Disambiguation::Compatible, 1 => temporal_rs::options::Disambiguation::Earlier,
                                   2 => temporal_rs::options::Disambiguation::Later, _ => temporal_rs::options::Disambiguation::Reject };
            match pdt.to_zoned_date_time_with_provider(&tz, dis, &provider) {
                Ok(z) => format!("0 {}", z.epoch_nanoseconds().as_i128()),
                Err(e) => format!("1 {}", e.kind() as u8),
            }
        }
        "syn_zone_instant_to_wall" => {
            use vharness::c13::{base_date, OneTransition, SynProvider, BASE_DAY};
            let zone = OneTransition { t: a[0] as i64, before: a[1] as i64, after: a[2] as i64 };
            let provider = SynProvider { zone, base_day: BASE_DAY, base: base_date() };
            let Ok(en) = temporal_rs::time::EpochNanoseconds::try_from(a[3]) else { return "1 2".into() };
            let z = Instant::from(en).to_zoned_date_time_iso(temporal_rs::TimeZone::IanaIdentifier("Syn/Zone".into()));
            match z.to_plain_datetime_with_provider(&provider) {
                Ok(p) => format!("0 {} {} {} {} {} {} {} {} {}", p.iso_year(), p.iso_month(), p.iso_day(), p.hour(), p.minute(), p.second(), p.millisecond(), p.microsecond(), p.nanosecond()),
                Err(e) => format!("1 {}", e.kind() as u8),
            }
        }
        "syn_zone_start_of_day" | "syn_zone_hours_in_day" => {
            // t before after e
            use vharness::c13::{base_date, OneTransition, SynProvider, BASE_DAY};
            let zone = OneTransition { t: a[0] as i64, before: a[1] as i64, after: a[2] as i64 };
            let provider = SynProvider { zone, base_day: BASE_DAY, base: base_date() };
            let Ok(en) = temporal_rs::time::EpochNanoseconds::try_from(a[3]) else { return "1 2".into() };
            let z = Instant::from(en).to_zoned_date_time_iso(temporal_rs::TimeZone::IanaIdentifier("Syn/Zone".into()));
            if name == "syn_zone_start_of_day" {
                match z.start_of_day_with_provider(&provider) {
                    Ok(s) => format!("0 {}", s.epoch_nanoseconds().as_i128()),
                    Err(e) => format!("1 {}", e.kind() as u8),
                }
            } else {
                match z.hours_in_day_with_provider(&provider) {
                    Ok(h) => format!("0 {h}"),
                    Err(e) => format!("1 {}", e.kind() as u8),
                }
            }
        }
        "syn_zone_zdt_add" => {
            // t before after e days hours minutes nanoseconds
            use vharness::c13::{base_date, OneTransition, SynProvider, BASE_DAY};
            let zone = OneTransition { t: a[0] as i64, before: a[1] as i64, after: a[2] as i64 };
            let provider = SynProvider { zone, base_day: BASE_DAY, base: base_date() };
            let Ok(en) = temporal_rs::time::EpochNanoseconds::try_from(a[3]) else { return "1 2".into() };
            let z = Instant::from(en).to_zoned_date_time_iso(temporal_rs::TimeZone::IanaIdentifier("Syn/Zone".into()));
            use temporal_rs::primitive::FiniteF64 as F;
            let f = |x: i128| F::try_from(x as f64).unwrap_or_default();
            let zf = F::default();
            let d = match temporal_rs::Duration::new(zf, zf, zf, f(a[4]), f(a[5]), f(a[6]), zf, zf, zf, f(a[7])) {
                Ok(d) => d,
                Err(e) => return format!("1 {}", e.kind() as u8),
            };
            match z.add_with_provider(&d, None, &provider) {
                Ok(s) => format!("0 {}", s.epoch_nanoseconds().as_i128()),
                Err(e) => format!("1 {}", e.kind() as u8),
            }
        }
        "syn_zone_interpret_offset" => {
            // t before after  h mi s ms us ns  dis offset_option kind(0 none,1 offset,2 Z) offset_ns   -- through the string route
            use vharness::c13::{OneTransition, SynProvider, base_date, BASE_DAY};
            let zone = OneTransition { t: a[0] as i64, before: a[1] as i64, after: a[2] as i64 };
            let provider = SynProvider { zone, base_day: BASE_DAY, base: base_date() };
            let sub = a[6] * 1_000_000 + a[7] * 1_000 + a[8];
            let mut text = format!("2000-06-15T{:02}:{:02}:{:02}.{:09}", a[3], a[4], a[5], sub);
            text.push_str(&offset_text(a[11], a[12], true));
            text.push_str("[Syn/Zone]");
            let dis = match a[9] { 0 => temporal_rs::options::Disambiguation::Compatible, 1 => temporal_rs::options::Disambiguation::Earlier,
                                   2 => temporal_rs::options::Disambiguation::Later, _ => temporal_rs::options::Disambiguation::Reject };
            use temporal_rs::options::OffsetDisambiguation as O;
            let opt = match a[10] { 0 => O::Use, 1 => O::Prefer, 2 => O::Ignore, _ => O::Reject };
            match temporal_rs::ZonedDateTime::from_str_with_provider(&text, dis, opt, &provider) {
                Ok(z) => format!("0 {}", z.epoch_nanoseconds().as_i128()),
                Err(e) => format!("1 {}", e.kind() as u8),
            }
        }
        "syn_zone_offset_of_string_zoned" | "syn_zone_offset_of_string_relative_to" => {
            // sign hh mm ss has_fraction fraction_digits fraction_ns is_z: the offset a string's designator is read as, observed end to end
            use vharness::c13::{OneTransition, SynProvider, base_date, BASE_DAY};
            let whole = a[0] * (a[1] * 3600 + a[2] * 60 + a[3]);
            let l: i128 = (BASE_DAY as i128 * 86_400 + 12 * 3600) * 1_000_000_000;
            let designator = if a[7] != 0 { "Z".to_string() } else {
                format!("{}{:02}:{:02}:{:02}{}", if a[0] < 0 { '-' } else { '+' }, a[1], a[2], a[3], fraction_text(a[4], a[5], a[6]))
            };
            let text = format!("2000-06-15T12:00:00{designator}[Syn/Zone]");
            if name == "syn_zone_offset_of_string_zoned" {
                // zone at +05:00 throughout; option `use` makes the written offset observable
                let zone = OneTransition { t: (BASE_DAY * 86_400) as i64, before: 18_000, after: 18_000 };
                let provider = SynProvider { zone, base_day: BASE_DAY, base: base_date() };
                match temporal_rs::ZonedDateTime::from_str_with_provider(&text, temporal_rs::options::Disambiguation::Compatible,
                                                                         temporal_rs::options::OffsetDisambiguation::Use, &provider) {
                    Ok(z) if a[7] != 0 => format!("0 0 {}", (z.epoch_nanoseconds().as_i128() == l) as u8),
                    Ok(z) => format!("0 1 {} 0", l - z.epoch_nanoseconds().as_i128()),
                    Err(e) => format!("1 {}", e.kind() as u8),
                }
            } else {
                // RelativeTo requires the written offset to match the zone's: the zone is given the intended offset (whole seconds),
                // so a written offset with a non-zero fraction is not observable this way (reported as an error)
                let zone = OneTransition { t: (BASE_DAY * 86_400) as i64, before: whole as i64, after: whole as i64 };
                let provider = SynProvider { zone, base_day: BASE_DAY, base: base_date() };
                match temporal_rs::options::RelativeTo::try_from_str_with_provider(&text, &provider) {
                    Ok(temporal_rs::options::RelativeTo::ZonedDateTime(z)) if a[7] != 0 => format!("0 0 {}", (z.epoch_nanoseconds().as_i128() == l) as u8),
                    Ok(temporal_rs::options::RelativeTo::ZonedDateTime(z)) => format!("0 1 {} 0", l - z.epoch_nanoseconds().as_i128()),
                    Ok(_) => "1 0".to_string(),
                    Err(e) => format!("1 {}", e.kind() as u8),
                }
            }
        }
        "record_instant" | "record_plain_time" | "record_plain_date_time" | "record_plain_date" => {
            // a parse record rendered as text: y m d has_time h mi s  f? fdigits fns  kind sign oh om os  f? fdigits fns
            use core::str::FromStr;
            let text = render_record(a);
            match name {
                "record_instant" => match Instant::from_str(&text) {
                    Ok(i) => format!("0 {}", i.as_i128()),
                    Err(e) => format!("1 {}", e.kind() as u8),
                },
                "record_plain_time" => match temporal_rs::PlainTime::from_str(&text) {
                    Ok(t) => format!("0 {} {} {} {} {} {}", t.hour(), t.minute(), t.second(), t.millisecond(), t.microsecond(), t.nanosecond()),
                    Err(e) => format!("1 {}", e.kind() as u8),
                },
                "record_plain_date_time" => match temporal_rs::PlainDateTime::from_str(&text) {
                    Ok(p) => format!("0 {} {} {} {} {} {} {} {} {}", p.iso_year(), p.iso_month(), p.iso_day(), p.hour(), p.minute(), p.second(),
                                     p.millisecond(), p.microsecond(), p.nanosecond()),
                    Err(e) => format!("1 {}", e.kind() as u8),
                },
                _ => match temporal_rs::PlainDate::from_str(&text) {
                    Ok(p) => format!("0 {} {} {}", p.iso_year(), p.iso_month(), p.iso_day()),
                    Err(e) => format!("1 {}", e.kind() as u8),
                },
            }
        }
        "record_plain_month_day" => {
            // form short_month short_day  + the record: form 1 `MM-DD`, 2 the rendered date / date-time, 0 neither
            use core::str::FromStr;
            let text = match a[0] { 1 => format!("{:02}-{:02}", a[1], a[2]), 2 => render_record(&a[3..]), _ => "x".to_string() };
            match temporal_rs::PlainMonthDay::from_str(&text) {
                Ok(p) => format!("0 {} {} {}", p.iso_year(), p.iso_month(), p.iso_day()),
                Err(e) => format!("1 {}", e.kind() as u8),
            }
        }
        "fs_provider_offset" => {
            // transition offset_before offset_after instant_ns: the real provider over a cached one-transition table
            use temporal_rs::provider::TimeZoneProvider;
            let mut t = vharness::c15::Table { n: 2, times: [a[0] as i64, a[0] as i64 + 4_000_000_000, 0], types: [1, 1, 0], ntypes: 2,
                                               utoff: [a[1] as i64, a[2] as i64, 0], dst: [false, false, false] };
            t.times[2] = t.times[1] + 1;
            let p = temporal_rs::tzdb::FsTzdbProvider::verif_with_cached("Syn/Zone", vharness::c15::build(&t));
            match p.get_named_tz_offset_nanoseconds("Syn/Zone", a[3]) {
                Ok(o) => format!("0 {}", o.offset),
                Err(e) => format!("1 {}", e.kind() as u8),
            }
        }
        "posix_footer_offset" => {
            // q: Tzif::get beyond an empty transition table, footer `EST5EDT,M3.2.0,M11.1.0`
            use tzif::data::posix::{DstTransitionInfo, PosixTzString, TransitionDate, TransitionDay, ZoneVariantInfo};
            use tzif::data::time::Seconds;
            let t = vharness::c15::Table { n: 0, times: [0; 3], types: [0; 3], ntypes: 2, utoff: [-18000, -14400, 0], dst: [false, true, false] };
            let mut tz = vharness::c15::build(&t);
            tz.footer = Some(PosixTzString {
                std_info: ZoneVariantInfo { name: "EST".into(), offset: Seconds(18000) },
                dst_info: Some(DstTransitionInfo {
                    variant_info: ZoneVariantInfo { name: "EDT".into(), offset: Seconds(14400) },
                    start_date: TransitionDate { day: TransitionDay::Mwd(3, 2, 0), time: Seconds(7200) },
                    end_date: TransitionDate { day: TransitionDay::Mwd(11, 1, 0), time: Seconds(7200) },
                }),
            });
            match tz.get(&Seconds(a[0] as i64)) {
                Ok(o) => format!("0 {}", o.offset),
                Err(e) => format!("1 {}", e.kind() as u8),
            }
        }
        "duration_compare" => {
            // days h min s ms us ns (a)  days h min s ms us ns (b): Duration::compare without relativeTo
            use temporal_rs::primitive::FiniteF64 as F;
            let f = |x: i128| F::try_from(x as f64).unwrap_or_default();
            let z = F::default();
            let mk = |v: &[i128]| temporal_rs::Duration::new(z, z, z, f(v[0]), f(v[1]), f(v[2]), f(v[3]), f(v[4]), f(v[5]), f(v[6]));
            let (Ok(x), Ok(y)) = (mk(&a[0..7]), mk(&a[7..14])) else { return "1 2".into() };
            match x.compare_with_provider(&y, None, &temporal_rs::provider::NeverProvider) {
                Ok(o) => format!("0 {}", o as i8),
                Err(e) => format!("1 {}", e.kind() as u8),
            }
        }
        "duration_add" => {
            // two calendar-free durations (7 fields each) + subtract flag: the seven result fields days..nanoseconds
            use temporal_rs::primitive::FiniteF64 as F;
            let f = |x: i128| F::try_from(x as f64).unwrap_or_default();
            let z = F::default();
            let mk = |v: &[i128]| temporal_rs::Duration::new(z, z, z, f(v[0]), f(v[1]), f(v[2]), f(v[3]), f(v[4]), f(v[5]), f(v[6]));
            let (Ok(x), Ok(y)) = (mk(&a[0..7]), mk(&a[7..14])) else { return "1 2".into() };
            let r = if a[14] != 0 { x.subtract(&y) } else { x.add(&y) };
            match r {
                Ok(d) if d.years() == 0.0 && d.months() == 0.0 && d.weeks() == 0.0 => format!("0 {} {} {} {} {} {} {}", d.days().as_inner() as i128, d.hours().as_inner() as i128,
                    d.minutes().as_inner() as i128, d.seconds().as_inner() as i128, d.milliseconds().as_inner() as i128, d.microseconds().as_inner() as i128, d.nanoseconds().as_inner() as i128),
                Ok(_) => "1 0".into(),
                Err(e) => format!("1 {}", e.kind() as u8),
            }
        }
        "instant_until" | "plain_time_until" => {
            // instant_until: a b has_largest largest since;  plain_time_until: 6 fields a, 6 fields b, has_largest largest since
            use temporal_rs::options::{DifferenceSettings, Unit};
            let k = if name == "instant_until" { 2 } else { 12 };
            let mut st = DifferenceSettings::default();
            if a[k] != 0 {
                st.largest_unit = Some(match a[k + 1] { 1 => Unit::Nanosecond, 2 => Unit::Microsecond, 3 => Unit::Millisecond, 4 => Unit::Second, 5 => Unit::Minute, _ => Unit::Hour });
            }
            let since = a[k + 2] != 0;
            let r = if name == "instant_until" {
                let (Ok(x), Ok(y)) = (temporal_rs::time::EpochNanoseconds::try_from(a[0]), temporal_rs::time::EpochNanoseconds::try_from(a[1])) else { return "1 2".into() };
                let (x, y) = (Instant::from(x), Instant::from(y));
                if since { x.since(&y, st) } else { x.until(&y, st) }
            } else {
                let mk = |v: &[i128]| temporal_rs::PlainTime::try_new(v[0] as u8, v[1] as u8, v[2] as u8, v[3] as u16, v[4] as u16, v[5] as u16);
                let (Ok(x), Ok(y)) = (mk(&a[0..6]), mk(&a[6..12])) else { return "1 2".into() };
                if since { x.since(&y, st) } else { x.until(&y, st) }
            };
            match r {
                Ok(d) => format!("0 {} {} {} {} {} {}", d.hours().as_inner() as i128, d.minutes().as_inner() as i128, d.seconds().as_inner() as i128,
                                 d.milliseconds().as_inner() as i128, d.microseconds().as_inner() as i128, d.nanoseconds().as_inner() as i128),
                Err(e) => format!("1 {}", e.kind() as u8),
            }
        }
        "fixed_zone_instant_to_wall" => {
            // offset_minutes e
            use temporal_rs::provider::NeverProvider;
            let Ok(en) = temporal_rs::time::EpochNanoseconds::try_from(a[1]) else { return "1 2".into() };
            let z = Instant::from(en).to_zoned_date_time_iso(temporal_rs::TimeZone::UtcOffset(h::utc_offset_from_minutes(a[0] as i16)));
            match z.to_plain_datetime_with_provider(&NeverProvider) {
                Ok(p) => format!("0 {} {} {} {} {} {} {} {} {}", p.iso_year(), p.iso_month(), p.iso_day(), p.hour(), p.minute(), p.second(), p.millisecond(), p.microsecond(), p.nanosecond()),
                Err(e) => format!("1 {}", e.kind() as u8),
            }
        }
        "negate_mode" => format!("{}", vharness::common::mode_idx(mode(a[0]).negate())),
        "unsigned_mode" => {
            use temporal_rs::options::UnsignedRoundingMode as U;
            let u = mode(a[0]).get_unsigned_round_mode(a[1] != 0);
            let i = match u {
                U::Infinity => 0,
                U::Zero => 1,
                U::HalfInfinity => 2,
                U::HalfZero => 3,
                U::HalfEven => 4,
            };
            format!("{i}")
        }
        _ => "UNKNOWN_HOOK".to_string(),
    }
}

/// the UTC designator of a date-time string: kind 0 none, 1 `+hh:mm:ss[.fffffffff]`, 2 `Z`
fn offset_text(kind: i128, ns: i128, with_fraction: bool) -> String {
    match kind {
        0 => String::new(),
        2 => "Z".to_string(),
        _ => {
            let (sign, m) = if ns < 0 { ('-', -ns) } else { ('+', ns) };
            let (secs, frac) = (m / 1_000_000_000, m % 1_000_000_000);
            let mut t = format!("{sign}{:02}:{:02}:{:02}", secs / 3600, secs / 60 % 60, secs % 60);
            if with_fraction {
                t.push_str(&format!(".{frac:09}"));
            }
            t
        }
    }
}

fn fraction_text(has: i128, digits: i128, ns: i128) -> String {
    if has == 0 {
        return String::new();
    }
    let nine = format!("{ns:09}");
    let mut t = String::from(".");
    t.push_str(&nine[..(digits.min(9) as usize)]);
    for _ in 9..digits {
        t.push('1');
    }
    t
}

/// the text of a parse record (see /verif/lib/specs/c12.py record_inputs)
fn render_record(a: &[i128]) -> String {
    let y = a[0];
    let mut t = if (0..=9999).contains(&y) { format!("{y:04}") } else { format!("{}{:06}", if y < 0 { '-' } else { '+' }, y.abs()) };
    t.push_str(&format!("-{:02}-{:02}", a[1], a[2]));
    if a[3] != 0 {
        t.push_str(&format!("T{:02}:{:02}:{:02}", a[4], a[5], a[6]));
        t.push_str(&fraction_text(a[7], a[8], a[9]));
        match a[10] {
            0 => {}
            2 => t.push('Z'),
            _ => {
                t.push_str(&format!("{}{:02}:{:02}:{:02}", if a[11] < 0 { '-' } else { '+' }, a[12], a[13], a[14]));
                t.push_str(&fraction_text(a[15], a[16], a[17]));
            }
        }
    }
    t
}

fn main() {
    let args: Vec<String> = std::env::args().collect();
    if args.len() < 2 {
        eprintln!("usage: mrun <hook> <ints...>   (or `-` to read lines `hook ints...` from stdin)");
        std::process::exit(2);
    }
    std::panic::set_hook(Box::new(|_| {}));
    let one = |name: &str, vals: Vec<i128>| -> String {
        let n = name.to_string();
        match std::panic::catch_unwind(move || run(&n, &vals)) {
            Ok(s) => s,
            Err(p) => {
                let m = p
                    .downcast_ref::<&str>()
                    .map(|s| s.to_string())
                    .or_else(|| p.downcast_ref::<String>().cloned())
                    .unwrap_or_default();
                format!("PANIC {}", m.replace('\n', " "))
            }
        }
    };
    if args[1] == "-" {
        use std::io::BufRead;
        for line in std::io::stdin().lock().lines() {
            let line = line.unwrap();
            let mut it = line.split_whitespace();
            let Some(name) = it.next() else { continue };
            let vals: Vec<i128> = it.map(|x| x.parse().expect("int")).collect();
            println!("{}", one(name, vals));
        }
    } else {
        let vals: Vec<i128> = args[2..].iter().map(|x| x.parse().expect("int")).collect();
        println!("{}", one(&args[1], vals));
    }
}
