//! Native runner for Engine-M replay / translator validation:
//! `mrun <hook> <int args...>` calls the real function (through temporal_rs::verif_hooks or the
//! public API) and prints its result as whitespace-separated integers (`PANIC <msg>` on panic).
use std::num::NonZeroU128;
use temporal_rs::options::{ArithmeticOverflow, RoundingMode};
use temporal_rs::verif_hooks as h;

fn mode(m: i128) -> RoundingMode {
    vharness::common::mode_of(m as u8)
}

fn run(name: &str, a: &[i128]) -> String {
    match name {
        "epoch_days_from_gregorian_date" => {
            format!("{}", h::epoch_days_from_gregorian_date(a[0] as i32, a[1] as u8, a[2] as u8))
        }
        "ymd_from_epoch_milliseconds" => {
            let (y, m, d) = h::ymd_from_epoch_milliseconds(a[0] as i64);
            format!("{y} {m} {d}")
        }
        "iso_days_in_month" => format!("{}", h::iso_days_in_month(a[0] as i32, a[1] as u8)),
        "mathematical_days_in_year" => format!("{}", h::mathematical_days_in_year(a[0] as i32)),
        "epoch_days_for_year" => format!("{}", h::epoch_days_for_year(a[0] as i32)),
        "iso_date_to_epoch_days" => {
            format!("{}", h::iso_date_to_epoch_days(a[0] as i32, a[1] as i32, a[2] as i32))
        }
        "iso_date_balance" => {
            let d = h::iso_date_balance(a[0] as i32, a[1] as i32, a[2] as i32);
            format!("{} {} {}", d.year, d.month, d.day)
        }
        "iso_time_balance" => {
            let (days, t) = h::iso_time_balance(
                a[0] as i64, a[1] as i64, a[2] as i64, a[3] as i64, a[4] as i64, a[5] as i64,
            );
            format!(
                "{} {} {} {} {} {} {}",
                days, t.hour, t.minute, t.second, t.millisecond, t.microsecond, t.nanosecond
            )
        }
        "year_month_within_limits" => {
            format!("{}", h::year_month_within_limits(a[0] as i32, a[1] as u8) as u8)
        }
        "iso_date_new_with_overflow" => {
            let ov = if a[3] == 0 { ArithmeticOverflow::Constrain } else { ArithmeticOverflow::Reject };
            match h::iso_date_new_with_overflow(a[0] as i32, a[1] as u8, a[2] as u8, ov) {
                Ok(d) => format!("0 {} {} {}", d.year, d.month, d.day),
                Err(e) => format!("1 {}", e.kind() as u8),
            }
        }
        "round_i128" => match h::round_i128(a[0], NonZeroU128::new(a[1] as u128).unwrap(), mode(a[2])) {
            Ok(v) => format!("0 {v}"),
            Err(e) => format!("1 {}", e.kind() as u8),
        },
        _ => "UNKNOWN_HOOK".to_string(),
    }
}

fn main() {
    let args: Vec<String> = std::env::args().collect();
    if args.len() < 2 {
        eprintln!("usage: mrun <hook> <ints...>   (or `-` to read lines `hook ints...` from stdin)");
        std::process::exit(2);
    }
    std::panic::set_hook(Box::new(|_| {}));
    let one = |name: &str, vals: Vec<i128>| -> String {
        let n = name.to_string();
        match std::panic::catch_unwind(move || run(&n, &vals)) {
            Ok(s) => s,
            Err(p) => {
                let m = p
                    .downcast_ref::<&str>()
                    .map(|s| s.to_string())
                    .or_else(|| p.downcast_ref::<String>().cloned())
                    .unwrap_or_default();
                format!("PANIC {}", m.replace('\n', " "))
            }
        }
    };
    if args[1] == "-" {
        use std::io::BufRead;
        for line in std::io::stdin().lock().lines() {
            let line = line.unwrap();
            let mut it = line.split_whitespace();
            let Some(name) = it.next() else { continue };
            let vals: Vec<i128> = it.map(|x| x.parse().expect("int")).collect();
            println!("{}", one(name, vals));
        }
    } else {
        let vals: Vec<i128> = args[2..].iter().map(|x| x.parse().expect("int")).collect();
        println!("{}", one(&args[1], vals));
    }
}
