//! Native runner for Engine-M replay / translator validation:
//! `mrun <hook> <int args...>` calls the real function (through temporal_rs::verif_hooks or the
//! public API) and prints its result as whitespace-separated integers (`PANIC <msg>` on panic).
use std::num::NonZeroU128;
use temporal_rs::iso::{IsoDate, IsoTime};
use temporal_rs::options::{ArithmeticOverflow, RoundingIncrement, RoundingMode, RoundingOptions, Unit};
use temporal_rs::Instant;
use temporal_rs::verif_hooks as h;

fn mode(m: i128) -> RoundingMode {
    vharness::common::mode_of(m as u8)
}

fn unit(u: i128) -> Unit {
    vharness::common::unit_of(u as u8)
}

fn time6(a: &[i128]) -> IsoTime {
    let mut t = IsoTime::default();
    t.hour = a[0] as u8;
    t.minute = a[1] as u8;
    t.second = a[2] as u8;
    t.millisecond = a[3] as u16;
    t.microsecond = a[4] as u16;
    t.nanosecond = a[5] as u16;
    t
}

fn date3(a: &[i128]) -> IsoDate {
    let mut d = IsoDate::default();
    d.year = a[0] as i32;
    d.month = a[1] as u8;
    d.day = a[2] as u8;
    d
}

fn fmt_time(t: &IsoTime) -> String {
    format!(
        "{} {} {} {} {} {}",
        t.hour, t.minute, t.second, t.millisecond, t.microsecond, t.nanosecond
    )
}

fn overflow(v: i128) -> ArithmeticOverflow {
    if v == 0 { ArithmeticOverflow::Constrain } else { ArithmeticOverflow::Reject }
}

fn run(name: &str, a: &[i128]) -> String {
    match name {
        "epoch_days_from_gregorian_date" => {
            format!("{}", h::epoch_days_from_gregorian_date(a[0] as i32, a[1] as u8, a[2] as u8))
        }
        "ymd_from_epoch_milliseconds" => {
            let (y, m, d) = h::ymd_from_epoch_milliseconds(a[0] as i64);
            format!("{y} {m} {d}")
        }
        "iso_days_in_month" => format!("{}", h::iso_days_in_month(a[0] as i32, a[1] as u8)),
        "mathematical_days_in_year" => format!("{}", h::mathematical_days_in_year(a[0] as i32)),
        "epoch_days_for_year" => format!("{}", h::epoch_days_for_year(a[0] as i32)),
        "iso_date_to_epoch_days" => {
            format!("{}", h::iso_date_to_epoch_days(a[0] as i32, a[1] as i32, a[2] as i32))
        }
        "iso_date_balance" => {
            let d = h::iso_date_balance(a[0] as i32, a[1] as i32, a[2] as i32);
            format!("{} {} {}", d.year, d.month, d.day)
        }
        "iso_time_balance" => {
            let (days, t) = h::iso_time_balance(
                a[0] as i64, a[1] as i64, a[2] as i64, a[3] as i64, a[4] as i64, a[5] as i64,
            );
            format!(
                "{} {} {} {} {} {} {}",
                days, t.hour, t.minute, t.second, t.millisecond, t.microsecond, t.nanosecond
            )
        }
        "year_month_within_limits" => {
            format!("{}", h::year_month_within_limits(a[0] as i32, a[1] as u8) as u8)
        }
        "iso_date_new_with_overflow" => {
            let ov = if a[3] == 0 { ArithmeticOverflow::Constrain } else { ArithmeticOverflow::Reject };
            match h::iso_date_new_with_overflow(a[0] as i32, a[1] as u8, a[2] as u8, ov) {
                Ok(d) => format!("0 {} {} {}", d.year, d.month, d.day),
                Err(e) => format!("1 {}", e.kind() as u8),
            }
        }
        "round_i128" => match h::round_i128(a[0], NonZeroU128::new(a[1] as u128).unwrap(), mode(a[2])) {
            Ok(v) => format!("0 {v}"),
            Err(e) => format!("1 {}", e.kind() as u8),
        },
        "iso_time_round" => {
            // h m s ms us ns unit inc mode
            let Ok(inc) = RoundingIncrement::try_new(a[7] as u32) else { return "1 2".into() };
            match h::iso_time_round(time6(a), unit(a[6]), inc, mode(a[8])) {
                Ok((d, t)) => format!("0 {} {}", d, fmt_time(&t)),
                Err(e) => format!("1 {}", e.kind() as u8),
            }
        }
        "iso_time_add_nanoseconds" => {
            let (d, t) = h::iso_time_add_nanoseconds(time6(a), a[6]);
            format!("{} {}", d, fmt_time(&t))
        }
        "norm_round" => {
            let Ok(inc) = RoundingIncrement::try_new(a[2] as u32) else { return "1 2".into() };
            match h::norm_round(a[0], unit(a[1]), inc, mode(a[3])) {
                Ok(v) => format!("0 {v}"),
                Err(e) => format!("1 {}", e.kind() as u8),
            }
        }
        "instant_round" => {
            // ns unit inc mode  (public API)
            let Ok(i) = Instant::try_new(a[0]) else { return "1 2".into() };
            let Ok(inc) = RoundingIncrement::try_new(a[2] as u32) else { return "1 2".into() };
            let mut o = RoundingOptions::default();
            o.largest_unit = None;
            o.smallest_unit = Some(unit(a[1]));
            o.increment = Some(inc);
            o.rounding_mode = Some(mode(a[3]));
            match i.round(o) {
                Ok(v) => format!("0 {}", v.as_i128()),
                Err(e) => format!("1 {}", e.kind() as u8),
            }
        }
        "iso_date_time_from_epoch_nanos" => match h::iso_date_time_from_epoch_nanos(a[0], a[1] as i64) {
            Ok(dt) => format!("0 {} {} {} {}", dt.date.year, dt.date.month, dt.date.day, fmt_time(&dt.time)),
            Err(e) => format!("1 {}", e.kind() as u8),
        },
        "iso_date_time_balance" => {
            let dt = h::iso_date_time_balance(
                a[0] as i32, a[1] as i32, a[2] as i32, a[3] as i64, a[4] as i64, a[5] as i64,
                a[6] as i64, a[7] as i64, a[8] as i64,
            );
            format!("{} {} {} {}", dt.date.year, dt.date.month, dt.date.day, fmt_time(&dt.time))
        }
        "iso_date_add_date_duration" => {
            // y m d  years months weeks days overflow
            match h::iso_date_add_date_duration(
                date3(a), a[3] as f64, a[4] as f64, a[5] as f64, a[6] as f64, overflow(a[7]),
            ) {
                Ok(d) => format!("0 {} {} {}", d.year, d.month, d.day),
                Err(e) => format!("1 {}", e.kind() as u8),
            }
        }
        "iso_date_diff" => match h::iso_date_diff(date3(a), date3(&a[3..]), unit(a[6])) {
            Ok((y, m, w, d)) => format!("0 {} {} {} {}", y as i64, m as i64, w as i64, d as i64),
            Err(e) => format!("1 {}", e.kind() as u8),
        },
        "iso_date_time_within_limits" => {
            let dt = h::iso_date_time_new_unchecked(date3(a), time6(&a[3..]));
            format!("{}", h::iso_date_time_within_limits(&dt) as u8)
        }
        "epoch_ns_try_from" => match temporal_rs::time::EpochNanoseconds::try_from(a[0]) {
            Ok(v) => format!("0 {}", v.as_i128()),
            Err(e) => format!("1 {}", e.kind() as u8),
        },
        "instant_from_epoch_ms" => match Instant::from_epoch_milliseconds(a[0] as i64) {
            Ok(v) => format!("0 {}", v.as_i128()),
            Err(e) => format!("1 {}", e.kind() as u8),
        },
        "unit_max_increment" => match unit(a[0]).to_maximum_rounding_increment() {
            Some(v) => format!("1 {v}"),
            None => "0".to_string(),
        },
        "instant_epoch_ms" => match Instant::try_new(a[0]) {
            Ok(i) => format!("{}", i.epoch_milliseconds()),
            Err(_) => "PANIC invalid instant".to_string(),
        },
        "norm_from_nanosecond_difference" => match h::norm_from_nanosecond_difference(a[0], a[1]) {
            Ok(v) => format!("0 {v}"),
            Err(e) => format!("1 {}", e.kind() as u8),
        },
        "norm_add_days" => match h::norm_add_days(a[0], a[1] as i64) {
            Ok(v) => format!("0 {v}"),
            Err(e) => format!("1 {}", e.kind() as u8),
        },
        "instant_add" => {
            use temporal_rs::primitive::FiniteF64 as F;
            let f = |x: i128| F::try_from(x as f64).unwrap_or_default();
            let Ok(i) = Instant::try_new(a[0]) else { return "1 2".into() };
            let d = match temporal_rs::Duration::new(F::default(), F::default(), F::default(), F::default(),
                f(a[1]), f(a[2]), f(a[3]), f(a[4]), f(a[5]), f(a[6])) {
                Ok(d) => d,
                Err(e) => return format!("1 {}", e.kind() as u8),
            };
            match i.add(d) {
                Ok(v) => format!("0 {}", v.as_i128()),
                Err(e) => format!("1 {}", e.kind() as u8),
            }
        }
        "plain_time_add" => {
            use temporal_rs::primitive::FiniteF64 as F;
            let f = |x: i128| F::try_from(x as f64).unwrap_or_default();
            let t = time6(a);
            let Ok(pt) = temporal_rs::PlainTime::try_new(t.hour, t.minute, t.second, t.millisecond, t.microsecond, t.nanosecond) else { return "1 2".into() };
            let td = match temporal_rs::TimeDuration::new(f(a[6]), f(a[7]), f(a[8]), f(a[9]), f(a[10]), f(a[11])) {
                Ok(d) => d,
                Err(e) => return format!("1 {}", e.kind() as u8),
            };
            match pt.add_time_duration(&td) {
                Ok(r) => format!("0 {} {} {} {} {} {}", r.hour(), r.minute(), r.second(), r.millisecond(), r.microsecond(), r.nanosecond()),
                Err(e) => format!("1 {}", e.kind() as u8),
            }
        }
        "negate_mode" => format!("{}", vharness::common::mode_idx(mode(a[0]).negate())),
        "unsigned_mode" => {
            use temporal_rs::options::UnsignedRoundingMode as U;
            let u = mode(a[0]).get_unsigned_round_mode(a[1] != 0);
            let i = match u {
                U::Infinity => 0,
                U::Zero => 1,
                U::HalfInfinity => 2,
                U::HalfZero => 3,
                U::HalfEven => 4,
            };
            format!("{i}")
        }
        _ => "UNKNOWN_HOOK".to_string(),
    }
}

fn main() {
    let args: Vec<String> = std::env::args().collect();
    if args.len() < 2 {
        eprintln!("usage: mrun <hook> <ints...>   (or `-` to read lines `hook ints...` from stdin)");
        std::process::exit(2);
    }
    std::panic::set_hook(Box::new(|_| {}));
    let one = |name: &str, vals: Vec<i128>| -> String {
        let n = name.to_string();
        match std::panic::catch_unwind(move || run(&n, &vals)) {
            Ok(s) => s,
            Err(p) => {
                let m = p
                    .downcast_ref::<&str>()
                    .map(|s| s.to_string())
                    .or_else(|| p.downcast_ref::<String>().cloned())
                    .unwrap_or_default();
                format!("PANIC {}", m.replace('\n', " "))
            }
        }
    };
    if args[1] == "-" {
        use std::io::BufRead;
        for line in std::io::stdin().lock().lines() {
            let line = line.unwrap();
            let mut it = line.split_whitespace();
            let Some(name) = it.next() else { continue };
            let vals: Vec<i128> = it.map(|x| x.parse().expect("int")).collect();
            println!("{}", one(name, vals));
        }
    } else {
        let vals: Vec<i128> = args[2..].iter().map(|x| x.parse().expect("int")).collect();
        println!("{}", one(&args[1], vals));
    }
}
