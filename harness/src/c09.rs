//! C09 — durations without a reference date form a consistent signed quantity.
use crate::src::Src;
use crate::{vassert, vcover};
use temporal_rs::error::ErrorKind;
use temporal_rs::primitive::FiniteF64;
use temporal_rs::provider::NeverProvider;
use temporal_rs::Duration;

const TWO32: f64 = 4_294_967_296.0;
const LIMIT_NS: i128 = 9_007_199_254_740_992 * 1_000_000_000; // 2^53 s in ns
const UNIT_NS: [i128; 7] = [
    86_400_000_000_000,
    3_600_000_000_000,
    60_000_000_000,
    1_000_000_000,
    1_000_000,
    1_000,
    1,
];

/// an arbitrary finite, integral double (any magnitude)
fn any_integral<S: Src>(s: &mut S) -> f64 {
    let x = s.f64();
    s.assume(x.is_finite());
    s.assume(x == x.trunc());
    x
}

fn ff(x: f64) -> FiniteF64 {
    match FiniteF64::try_from(x) {
        Ok(v) => v,
        Err(_) => FiniteF64::default(),
    }
}

/// exact reference: valid iff sign-uniform, |y|,|mo|,|w| < 2^32 and |total time incl. days| < 2^53 s
fn ref_valid(f: &[f64; 10]) -> bool {
    let pos = f.iter().any(|v| *v > 0.0);
    let neg = f.iter().any(|v| *v < 0.0);
    if pos && neg {
        return false;
    }
    if f[0].abs() >= TWO32 || f[1].abs() >= TWO32 || f[2].abs() >= TWO32 {
        return false;
    }
    let mut total: i128 = 0;
    for i in 0..7 {
        let v = f[3 + i];
        // a field that alone is worth 2^53 s or more is invalid (and keeps the exact sum inside i128)
        if v.abs() >= 1.0e25 / (UNIT_NS[i] as f64) {
            return false;
        }
        total += (v as i128) * UNIT_NS[i];
    }
    total.abs() < LIMIT_NS
}

fn mk(f: &[f64; 10]) -> Result<Duration, temporal_rs::TemporalError> {
    Duration::new(
        ff(f[0]), ff(f[1]), ff(f[2]), ff(f[3]), ff(f[4]), ff(f[5]), ff(f[6]), ff(f[7]), ff(f[8]), ff(f[9]),
    )
}

fn check_validity<S: Src>(s: &mut S, f: &[f64; 10]) {
    let want = ref_valid(f);
    let got = mk(f);
    vcover!(s, "C09.valid.valid_reachable", want);
    vcover!(s, "C09.valid.invalid_reachable", !want);
    match got {
        Ok(d) => {
            vassert!(s, "C09.valid.rejects_invalid_fields", want);
            vassert!(s, "C09.valid.fields_stored_unchanged",
                d.years().as_inner() == f[0] && d.months().as_inner() == f[1] && d.weeks().as_inner() == f[2]
                && d.days().as_inner() == f[3] && d.hours().as_inner() == f[4] && d.minutes().as_inner() == f[5]
                && d.seconds().as_inner() == f[6] && d.milliseconds().as_inner() == f[7]
                && d.microseconds().as_inner() == f[8] && d.nanoseconds().as_inner() == f[9]);
        }
        Err(e) => {
            vassert!(s, "C09.valid.accepts_valid_fields", !want);
            vassert!(s, "C09.valid.rejection_is_range_error", e.kind() == ErrorKind::Range);
        }
    }
}

/// sign uniformity: all ten fields small integral doubles of either sign
pub fn valid_sign<S: Src>(s: &mut S) {
    let mut f = [0.0f64; 10];
    for i in 0..10 {
        let v = s.i16();
        s.assume(-1000 <= v && v <= 1000);
        f[i] = v as f64;
    }
    check_validity(s, &f);
}

/// years / months / weeks: any integral double, boundary 2^32 exact
pub fn valid_calendar_fields<S: Src>(s: &mut S) {
    let mut f = [0.0f64; 10];
    f[0] = any_integral(s);
    f[1] = any_integral(s);
    f[2] = any_integral(s);
    vcover!(s, "C09.valid.years_at_2_32_minus_1", f[0] == TWO32 - 1.0 && f[1] == 0.0 && f[2] == 0.0);
    check_validity(s, &f);
}

/// days .. nanoseconds: any non-negative (or, mirrored, non-positive) integral double, boundary 2^53 s exact
pub fn valid_time_fields<S: Src>(s: &mut S, negative: bool, lo: usize, hi: usize) {
    let mut f = [0.0f64; 10];
    for i in lo..hi {
        let v = any_integral(s);
        s.assume(v >= 0.0);
        f[i] = if negative { -v } else { v };
    }
    check_validity(s, &f);
}

/// days and nanoseconds only: the two extremes of the unit scale
pub fn valid_days_nanos<S: Src>(s: &mut S) {
    let mut f = [0.0f64; 10];
    f[3] = any_integral(s);
    f[9] = any_integral(s);
    check_validity(s, &f);
}

/// negated / abs / sign / is_zero behave as on signed numbers (fields small, sign-uniform)
pub fn sign_ops<S: Src>(s: &mut S) {
    let mut f = [0.0f64; 10];
    let sign = s.i8();
    s.assume(sign == 1 || sign == -1);
    for i in 0..10 {
        let v = s.u16_in(0, 1000);
        f[i] = (v as f64) * (sign as f64);
    }
    let Ok(d) = mk(&f) else {
        vassert!(s, "C09.sign.small_uniform_duration_is_valid", false);
        return;
    };
    let zero = f.iter().all(|v| *v == 0.0);
    let sg = d.sign() as i8;
    vassert!(s, "C09.sign.sign_matches_fields", sg == if zero { 0 } else { sign });
    vassert!(s, "C09.sign.is_zero", d.is_zero() == zero);
    let n = d.negated();
    let a = d.abs();
    let nf = [n.years(), n.months(), n.weeks(), n.days(), n.hours(), n.minutes(), n.seconds(), n.milliseconds(), n.microseconds(), n.nanoseconds()];
    let af = [a.years(), a.months(), a.weeks(), a.days(), a.hours(), a.minutes(), a.seconds(), a.milliseconds(), a.microseconds(), a.nanoseconds()];
    let mut neg_ok = true;
    let mut abs_ok = true;
    for i in 0..10 {
        neg_ok &= nf[i].as_inner() == -f[i];
        abs_ok &= af[i].as_inner() == f[i].abs();
    }
    vassert!(s, "C09.sign.negated_negates_every_field", neg_ok);
    vassert!(s, "C09.sign.abs_of_every_field", abs_ok);
    vassert!(s, "C09.sign.negated_sign", (n.sign() as i8) == -sg);
    vcover!(s, "C09.sign.reach", true);
}

/// compare without relativeTo: order of exact totals (days count 24 h); calendar units need relativeTo
pub fn compare_no_relative<S: Src>(s: &mut S) {
    let mut a = [0.0f64; 10];
    let mut b = [0.0f64; 10];
    let mut ta: i128 = 0;
    let mut tb: i128 = 0;
    for i in [8usize, 9] {
        // microseconds and nanoseconds, unbalanced on purpose (each may exceed 1000)
        let x = s.i32_in(-100_000, 100_000);
        let y = s.i32_in(-100_000, 100_000);
        a[i] = x as f64;
        b[i] = y as f64;
        ta += (x as i128) * UNIT_NS[i - 3];
        tb += (y as i128) * UNIT_NS[i - 3];
    }
    let (Ok(da), Ok(db)) = (mk(&a), mk(&b)) else {
        return; // mixed signs: not a duration
    };
    let got = da.compare_with_provider(&db, None, &NeverProvider);
    match got {
        Ok(o) => vassert!(s, "C09.compare.order_of_exact_totals", o == ta.cmp(&tb)),
        Err(_) => vassert!(s, "C09.compare.calendar_free_durations_compare", false),
    }
    vcover!(s, "C09.compare.unequal_reachable", ta != tb);
}

fn fields_of(d: &Duration) -> [f64; 10] {
    [d.years().as_inner(), d.months().as_inner(), d.weeks().as_inner(), d.days().as_inner(), d.hours().as_inner(),
     d.minutes().as_inner(), d.seconds().as_inner(), d.milliseconds().as_inner(), d.microseconds().as_inner(), d.nanoseconds().as_inner()]
}

/// C02 on durations: whatever add/subtract returns successfully is itself a valid duration (sum near the 2^53 s cap,
/// nanosecond-only operands so the result's largest unit is the nanosecond and one double carries the whole total)
pub fn add_result_valid_near_cap<S: Src>(s: &mut S) {
    let x = any_integral(s);
    let y = any_integral(s);
    s.assume(x >= 0.0 && y >= 0.0 && x < 9.1e24 && y < 9.1e24);
    let mut a = [0.0f64; 10];
    let mut b = [0.0f64; 10];
    a[9] = x;
    b[9] = y;
    let (Ok(da), Ok(db)) = (mk(&a), mk(&b)) else { return };
    vcover!(s, "C09.add_cap.sum_above_cap_reachable", (x as i128) + (y as i128) >= LIMIT_NS);
    vcover!(s, "C09.add_cap.sum_just_below_cap_reachable", (x as i128) + (y as i128) == LIMIT_NS - 1);
    match da.add(&db) {
        Ok(r) => {
            let f = fields_of(&r);
            vassert!(s, "C09.add_cap.successful_sum_is_a_valid_duration", ref_valid(&f));
            vassert!(s, "C09.add_cap.exact_sum_is_below_cap", (x as i128) + (y as i128) < LIMIT_NS);
        }
        Err(e) => vassert!(s, "C09.add_cap.failure_is_range_error", e.kind() == ErrorKind::Range),
    }
}

crate::harnesses! { REGISTRY;
    c09_add_result_valid_near_cap [unwind 12] = |s| add_result_valid_near_cap(s);
    c09_valid_sign [unwind 12] = |s| valid_sign(s);
    c09_valid_calendar_fields [unwind 12] = |s| valid_calendar_fields(s);
    c09_valid_days_hours [unwind 12] = |s| valid_time_fields(s, false, 3, 5);
    c09_valid_minutes_seconds [unwind 12] = |s| valid_time_fields(s, false, 5, 7);
    c09_valid_seconds_millis [unwind 12] = |s| valid_time_fields(s, false, 6, 8);
    c09_valid_micros_nanos [unwind 12] = |s| valid_time_fields(s, true, 8, 10);
    c09_valid_days_to_seconds [unwind 12] = |s| valid_time_fields(s, false, 3, 7);
    c09_valid_seconds_to_nanos [unwind 12] = |s| valid_time_fields(s, false, 6, 10);
    c09_valid_days_and_nanos [unwind 12] = |s| { valid_days_nanos(s) };
    c09_sign_ops [unwind 12] = |s| sign_ops(s);
    c09_compare_no_relative [unwind 12] = |s| compare_no_relative(s);
}
