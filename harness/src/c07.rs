//! C07 — rounding picks the neighbouring multiple prescribed by the mode (callers).
use crate::common::*;
use crate::src::Src;
use temporal_rs::options::Unit;
use temporal_rs::PlainTime;

/// PlainTime::round(unit, inc, mode) for every wall-clock time and every mode;
/// (unit, inc) concrete per harness.
pub fn time_round<S: Src>(s: &mut S, unit: u8, inc: u32) {
    let t = any_time(s);
    let mode = s.u8_in(0, 8);
    let x = time_ns(&t);
    let Ok(pt) = PlainTime::try_new(
        t.hour,
        t.minute,
        t.second,
        t.millisecond,
        t.microsecond,
        t.nanosecond,
    ) else {
        crate::vassert!(s, "C07.time_round.valid_time_constructs", false);
        return;
    };
    let res = pt.round(unit_of(unit), Some(inc as f64), Some(mode_of(mode)));
    let step = unit_ns(unit) * inc as i128;
    let expect = ref_round(x, step, mode).rem_euclid(NS_DAY);
    match res {
        Ok(r) => {
            let got = ((((r.hour() as i128 * 60 + r.minute() as i128) * 60 + r.second() as i128)
                * 1000
                + r.millisecond() as i128)
                * 1000
                + r.microsecond() as i128)
                * 1000
                + r.nanosecond() as i128;
            crate::vcover!(s, "C07.time_round.tie", 2 * x.rem_euclid(step) == step);
            crate::vcover!(s, "C07.time_round.carry_day", ref_round(x, step, mode) == NS_DAY);
            crate::vassert!(s, "C07.time_round.value", got == expect);
        }
        Err(_) => crate::vassert!(s, "C07.time_round.admissible_increment_accepted", false),
    }
    let _ = Unit::Auto;
}

crate::harnesses! { REGISTRY;
    c07_time_round_ns5 [unwind 2] = |s| time_round(s, 1, 5);
    c07_time_round_us125 [unwind 2] = |s| time_round(s, 2, 125);
    c07_time_round_ms8 [unwind 2] = |s| time_round(s, 3, 8);
    c07_time_round_s15 [unwind 2] = |s| time_round(s, 4, 15);
    c07_time_round_min20 [unwind 2] = |s| time_round(s, 5, 20);
    c07_time_round_h3 [unwind 2] = |s| time_round(s, 6, 3);
}
