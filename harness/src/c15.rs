//! C15 — the bundled tz provider reports what the TZif data say.
//! `Tzif` and the tzif crate's data types have public fields, so tables are built directly:
//! symbolic transition tables (0..=3 transitions, 2..=3 local-time types), query instant symbolic,
//! against the RFC 8536 reading done by a linear scan.
use crate::src::Src;
use crate::{vassert, vcover};
use temporal_rs::tzdb::Tzif;
use tzif::data::time::Seconds;
use tzif::data::tzif::{DataBlock, LocalTimeTypeRecord, TzifHeader};

const MAX_T: usize = 3;
const MAX_TYPES: usize = 3;

pub struct Table {
    pub n: usize,
    pub times: [i64; MAX_T],
    pub types: [usize; MAX_T],
    pub ntypes: usize,
    pub utoff: [i64; MAX_TYPES],
    pub dst: [bool; MAX_TYPES],
}

pub fn any_table<S: Src>(s: &mut S, min_n: usize) -> Table {
    let n = s.u8_in(min_n as u8, MAX_T as u8) as usize;
    let ntypes = s.u8_in(2, MAX_TYPES as u8) as usize;
    let mut t = Table { n, times: [0; MAX_T], types: [0; MAX_T], ntypes, utoff: [0; MAX_TYPES], dst: [false; MAX_TYPES] };
    for i in 0..MAX_T {
        t.times[i] = s.i64_in(-4_000_000_000, 4_000_000_000);
        t.types[i] = s.u8_in(0, (MAX_TYPES - 1) as u8) as usize;
        s.assume(t.types[i] < ntypes);
        if i > 0 {
            s.assume(t.times[i - 1] < t.times[i]); // strictly ascending, as RFC 8536 requires
        }
    }
    for i in 0..MAX_TYPES {
        t.utoff[i] = s.i64_in(-93_600, 93_600);
        t.dst[i] = s.bool();
    }
    t
}

pub fn build(t: &Table) -> Tzif {
    let mut db = DataBlock::default();
    for i in 0..t.n {
        db.transition_times.push(Seconds(t.times[i]));
        db.transition_types.push(t.types[i]);
    }
    for i in 0..t.ntypes {
        db.local_time_type_records.push(LocalTimeTypeRecord { utoff: Seconds(t.utoff[i]), is_dst: t.dst[i], idx: 0 });
    }
    let hdr = TzifHeader { version: 2, isutcnt: 0, isstdcnt: 0, leapcnt: 0, timecnt: t.n, typecnt: t.ntypes, charcnt: 0 };
    Tzif { header1: hdr, data_block1: DataBlock::default(), header2: Some(hdr), data_block2: Some(db), footer: None }
}

/// RFC 8536: before the first transition time type 0 applies; from transition i on, its type applies
pub fn ref_offset(t: &Table, q: i64) -> (i64, Option<i64>) {
    let mut off = t.utoff[0];
    let mut since = None;
    for i in 0..MAX_T {
        if i < t.n && t.times[i] <= q {
            off = t.utoff[t.types[i]];
            since = Some(t.times[i]);
        }
    }
    (off, since)
}

/// Tzif::get inside the table span (no footer needed): q strictly before the last transition,
/// or anywhere when the footer is irrelevant
pub fn tzif_get<S: Src>(s: &mut S) {
    let t = any_table(s, 1);
    let q = s.i64_in(-4_100_000_000, 4_100_000_000);
    // the span the table itself covers: up to, but not including, the last transition (after it the POSIX
    // footer decides, see the footer harnesses)
    s.assume(q < t.times[t.n - 1]);
    let tz = build(&t);
    let (want_off, want_since) = ref_offset(&t, q);
    vcover!(s, "C15.get.before_first_transition", q < t.times[0]);
    vcover!(s, "C15.get.exactly_at_a_transition", t.n >= 2 && q == t.times[0]);
    vcover!(s, "C15.get.between_transitions", t.n >= 2 && q > t.times[0]);
    let got = tz.get(&Seconds(q));
    match got {
        Ok(o) => {
            vassert!(s, "C15.get.offset_in_force", o.offset == want_off);
            if want_since.is_some() {
                vassert!(s, "C15.get.transition_epoch_is_start_of_current_period", o.transition_epoch == want_since);
            }
        }
        Err(_) => vassert!(s, "C15.get.answers_inside_table_span", false),
    }
    core::mem::forget(tz);
}

/// `v2_estimate_tz_pair`: the candidate records for a local time (seconds "as if UTC") are exactly the types of the
/// periods whose own offset maps the local time into that period
pub fn estimate_pair<S: Src>(s: &mut S) {
    use temporal_rs::tzdb::LocalTimeRecordResult as R;
    let t = any_table(s, 2);
    // periods longer than any two offsets apart (so that at most two periods can claim one local time),
    // and the query far enough before the last transition that the POSIX footer is not consulted
    for i in 1..MAX_T {
        if i < t.n {
            s.assume(t.times[i] - t.times[i - 1] > 400_000);
        }
    }
    let l = s.i64_in(-4_100_000_000, 4_100_000_000);
    s.assume(l + 200_000 < t.times[t.n - 1]);
    // brute force: period -1 = (-inf, t0) with type 0; period i = [t_i, t_{i+1}) with types[i]
    let mut cands = [0i64; MAX_T + 1];
    let mut nc = 0usize;
    {
        let off = t.utoff[0];
        if l - off < t.times[0] {
            cands[nc] = off;
            nc += 1;
        }
    }
    for i in 0..MAX_T {
        if i + 1 < t.n {
            let off = t.utoff[t.types[i]];
            let e = l - off;
            if e >= t.times[i] && e < t.times[i + 1] {
                cands[nc] = off;
                nc += 1;
            }
        }
    }
    let tz = build(&t);
    vcover!(s, "C15.pair.skipped_local_time", nc == 0);
    vcover!(s, "C15.pair.repeated_local_time", nc == 2);
    vcover!(s, "C15.pair.before_first_transition", l - t.utoff[0] < t.times[0] && nc == 1);
    match tz.v2_estimate_tz_pair(&Seconds(l)) {
        Ok(R::Empty) => vassert!(s, "C15.pair.empty_only_for_skipped_local_time", nc == 0),
        Ok(R::Single(r)) => {
            vassert!(s, "C15.pair.single_only_for_unique_local_time", nc == 1);
            if nc == 1 {
                vassert!(s, "C15.pair.single_offset_is_the_period_offset", r.offset == cands[0]);
            }
        }
        Ok(R::Ambiguous { std, dst }) => {
            vassert!(s, "C15.pair.two_only_for_repeated_local_time", nc == 2);
            if nc == 2 {
                vassert!(s, "C15.pair.both_offsets_are_the_period_offsets",
                         (std.offset == cands[0] && dst.offset == cands[1]) || (std.offset == cands[1] && dst.offset == cands[0]));
            }
        }
        Err(_) => vassert!(s, "C15.pair.answers_inside_table_span", false),
    }
    core::mem::forget(tz);
}

/// provider entry points over a cached synthetic zone: two transitions around 1960-06-15 (negative epoch seconds)
fn provider_table<S: Src>(s: &mut S) -> Table {
    const DAY0: i64 = -3487 * 86_400; // 1960-06-15T00:00:00Z
    let mut t = Table { n: 2, times: [0; MAX_T], types: [0; MAX_T], ntypes: 3, utoff: [0; MAX_TYPES], dst: [false; MAX_TYPES] };
    t.times[0] = s.i64_in(DAY0 - 100_000, DAY0 + 186_400);
    t.times[1] = t.times[0] + 20_000_000;
    t.times[2] = t.times[1] + 1;
    for i in 0..2 {
        t.types[i] = s.u8_in(0, 2) as usize;
    }
    for i in 0..MAX_TYPES {
        t.utoff[i] = s.i64_in(-50_400, 50_400);
        t.dst[i] = s.bool();
    }
    t
}

/// get_named_tz_offset_nanoseconds: the offset in force at an instant given in nanoseconds (before 1970: floor seconds)
pub fn provider_offset<S: Src>(s: &mut S) {
    use temporal_rs::provider::TimeZoneProvider;
    let t = provider_table(s);
    let e = s.i128_in(-3489 * 86_400_000_000_000, -3485 * 86_400_000_000_000);
    let q = e.div_euclid(1_000_000_000) as i64;
    let (want_off, _) = ref_offset(&t, q);
    let p = temporal_rs::tzdb::FsTzdbProvider::verif_with_cached("Syn/Zone", build(&t));
    vcover!(s, "C15.provider_offset.sub_second_before_transition", q + 1 == t.times[0] && e % 1_000_000_000 != 0);
    match p.get_named_tz_offset_nanoseconds("Syn/Zone", e) {
        Ok(o) => vassert!(s, "C15.provider_offset.offset_in_force_at_the_instant", o.offset == want_off),
        Err(_) => vassert!(s, "C15.provider_offset.answers", false),
    }
    core::mem::forget(p);
}

/// get_named_tz_epoch_nanoseconds: exactly the instants whose wall-clock reading is the local date-time, ascending
pub fn provider_candidates<S: Src>(s: &mut S) {
    use temporal_rs::provider::TimeZoneProvider;
    let t = provider_table(s);
    let time = crate::common::any_time(s);
    let tod = crate::common::time_ns(&time);
    let mut date = temporal_rs::iso::IsoDate::default();
    date.year = 1960;
    date.month = 6;
    date.day = 15;
    let iso = temporal_rs::verif_hooks::iso_date_time_new_unchecked(date, time);
    let l: i128 = -3487 * 86_400_000_000_000 + tod;
    // brute force over the three periods (ascending in time)
    let mut want = [0i128; 3];
    let mut nw = 0usize;
    for period in 0..3usize {
        let off = if period == 0 { t.utoff[0] } else { t.utoff[t.types[period - 1]] };
        let e = l - off as i128 * 1_000_000_000;
        let sec = e.div_euclid(1_000_000_000) as i64;
        let after_start = period == 0 || t.times[period - 1] <= sec;
        let before_end = period == 2 || sec < t.times[period];
        if after_start && before_end {
            want[nw] = e;
            nw += 1;
        }
    }
    let p = temporal_rs::tzdb::FsTzdbProvider::verif_with_cached("Syn/Zone", build(&t));
    vcover!(s, "C15.provider_candidates.repeated", nw == 2);
    vcover!(s, "C15.provider_candidates.skipped", nw == 0);
    match p.get_named_tz_epoch_nanoseconds("Syn/Zone", iso) {
        Ok(v) => {
            vassert!(s, "C15.provider_candidates.count", v.len() == nw);
            if v.len() == nw && nw >= 1 {
                vassert!(s, "C15.provider_candidates.first_is_the_earlier_instant", v[0].as_i128() == want[0]);
            }
            if v.len() == nw && nw == 2 {
                vassert!(s, "C15.provider_candidates.second_is_the_later_instant", v[1].as_i128() == want[1]);
            }
            core::mem::forget(v);
        }
        Err(_) => vassert!(s, "C15.provider_candidates.answers", false),
    }
    core::mem::forget(p);
}

crate::harnesses! { REGISTRY;
    c15_tzif_get [unwind 5] = |s| tzif_get(s);
    c15_provider_offset [unwind 9] = |s| provider_offset(s);
    c15_provider_candidates [unwind 9] = |s| provider_candidates(s);
    c15_estimate_pair [unwind 5] = |s| estimate_pair(s);
}
