//! C15 — the bundled tz provider reports what the TZif data say.
//! `Tzif` and the tzif crate's data types have public fields, so tables are built directly:
//! symbolic transition tables (0..=3 transitions, 2..=3 local-time types), query instant symbolic,
//! against the RFC 8536 reading done by a linear scan.
use crate::src::Src;
use crate::{vassert, vcover};
use temporal_rs::tzdb::Tzif;
use tzif::data::time::Seconds;
use tzif::data::tzif::{DataBlock, LocalTimeTypeRecord, TzifHeader};

const MAX_T: usize = 3;
const MAX_TYPES: usize = 3;

pub struct Table {
    pub n: usize,
    pub times: [i64; MAX_T],
    pub types: [usize; MAX_T],
    pub ntypes: usize,
    pub utoff: [i64; MAX_TYPES],
    pub dst: [bool; MAX_TYPES],
}

pub fn any_table<S: Src>(s: &mut S, min_n: usize) -> Table {
    let n = s.u8_in(min_n as u8, MAX_T as u8) as usize;
    let ntypes = s.u8_in(2, MAX_TYPES as u8) as usize;
    let mut t = Table { n, times: [0; MAX_T], types: [0; MAX_T], ntypes, utoff: [0; MAX_TYPES], dst: [false; MAX_TYPES] };
    for i in 0..MAX_T {
        t.times[i] = s.i64_in(-4_000_000_000, 4_000_000_000);
        t.types[i] = s.u8_in(0, (MAX_TYPES - 1) as u8) as usize;
        s.assume(t.types[i] < ntypes);
        if i > 0 {
            s.assume(t.times[i - 1] < t.times[i]); // strictly ascending, as RFC 8536 requires
        }
    }
    for i in 0..MAX_TYPES {
        t.utoff[i] = s.i64_in(-93_600, 93_600);
        t.dst[i] = s.bool();
    }
    t
}

pub fn build(t: &Table) -> Tzif {
    let mut db = DataBlock::default();
    for i in 0..t.n {
        db.transition_times.push(Seconds(t.times[i]));
        db.transition_types.push(t.types[i]);
    }
    for i in 0..t.ntypes {
        db.local_time_type_records.push(LocalTimeTypeRecord { utoff: Seconds(t.utoff[i]), is_dst: t.dst[i], idx: 0 });
    }
    let hdr = TzifHeader { version: 2, isutcnt: 0, isstdcnt: 0, leapcnt: 0, timecnt: t.n, typecnt: t.ntypes, charcnt: 0 };
    Tzif { header1: hdr, data_block1: DataBlock::default(), header2: Some(hdr), data_block2: Some(db), footer: None }
}

/// RFC 8536: before the first transition time type 0 applies; from transition i on, its type applies
pub fn ref_offset(t: &Table, q: i64) -> (i64, Option<i64>) {
    let mut off = t.utoff[0];
    let mut since = None;
    for i in 0..MAX_T {
        if i < t.n && t.times[i] <= q {
            off = t.utoff[t.types[i]];
            since = Some(t.times[i]);
        }
    }
    (off, since)
}

/// Tzif::get inside the table span (no footer needed): q strictly before the last transition,
/// or anywhere when the footer is irrelevant
pub fn tzif_get<S: Src>(s: &mut S) {
    let t = any_table(s, 1);
    let q = s.i64_in(-4_100_000_000, 4_100_000_000);
    // the span the table itself covers: up to, but not including, the last transition (after it the POSIX
    // footer decides, see the footer harnesses)
    s.assume(q < t.times[t.n - 1]);
    let tz = build(&t);
    let (want_off, want_since) = ref_offset(&t, q);
    vcover!(s, "C15.get.before_first_transition", q < t.times[0]);
    vcover!(s, "C15.get.exactly_at_a_transition", t.n >= 2 && q == t.times[0]);
    vcover!(s, "C15.get.between_transitions", t.n >= 2 && q > t.times[0]);
    let got = tz.get(&Seconds(q));
    match got {
        Ok(o) => {
            vassert!(s, "C15.get.offset_in_force", o.offset == want_off);
            if want_since.is_some() {
                vassert!(s, "C15.get.transition_epoch_is_start_of_current_period", o.transition_epoch == want_since);
            }
        }
        Err(_) => vassert!(s, "C15.get.answers_inside_table_span", false),
    }
    core::mem::forget(tz);
}

crate::harnesses! { REGISTRY;
    c15_tzif_get [unwind 5] = |s| tzif_get(s);
}
