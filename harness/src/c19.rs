//! C19 — convenience (compiled-data) and FFI layers return exactly what the core returns.
use crate::common::*;
use crate::src::Src;
use crate::{vassert, vcover};
use temporal_rs::provider::NeverProvider;
use temporal_rs::time::EpochNanoseconds;
use temporal_rs::{Instant, TemporalResult, TimeZone, ZonedDateTime};

fn same<T: PartialEq>(a: &TemporalResult<T>, b: &TemporalResult<T>) -> bool {
    match (a, b) {
        (Ok(x), Ok(y)) => x == y,
        (Err(e1), Err(e2)) => e1.kind() == e2.kind(),
        _ => false,
    }
}

/// a ZonedDateTime with a fixed-offset zone (the provider is never consulted) at a symbolic instant
fn any_zdt<S: Src>(s: &mut S, offset_minutes: i16) -> Option<ZonedDateTime> {
    // instants within 2000-01-01 .. 2000-12-31 at nanosecond resolution
    let ns = 946_684_800_000_000_000i128 + s.i128_in(0, 366 * 86_400_000_000_000 - 1);
    let en = EpochNanoseconds::try_from(ns).ok()?;
    let tz = TimeZone::UtcOffset(temporal_rs::verif_hooks::utc_offset_from_minutes(offset_minutes));
    Some(Instant::from(en).to_zoned_date_time_iso(tz))
}

/// one compiled-data accessor against its *_with_provider twin (which: 0 hour .. 5 nanosecond, 6 year, 7 month, 8 day,
/// 9 offset_nanoseconds); the receiver is any instant of year 2000 in a fixed-offset zone
pub fn zdt_accessor<S: Src>(s: &mut S, which: u8) {
    let Some(z) = any_zdt(s, if which < 6 { 330 } else { -480 }) else { return };
    let p = NeverProvider;
    match which {
        0 => vassert!(s, "C19.zdt.hour", same(&z.hour(), &z.hour_with_provider(&p))),
        1 => vassert!(s, "C19.zdt.minute", same(&z.minute(), &z.minute_with_provider(&p))),
        2 => vassert!(s, "C19.zdt.second", same(&z.second(), &z.second_with_provider(&p))),
        3 => vassert!(s, "C19.zdt.millisecond", same(&z.millisecond(), &z.millisecond_with_provider(&p))),
        4 => vassert!(s, "C19.zdt.microsecond", same(&z.microsecond(), &z.microsecond_with_provider(&p))),
        5 => vassert!(s, "C19.zdt.nanosecond", same(&z.nanosecond(), &z.nanosecond_with_provider(&p))),
        6 => vassert!(s, "C19.zdt.year", same(&z.year(), &z.year_with_provider(&p))),
        7 => vassert!(s, "C19.zdt.month", same(&z.month(), &z.month_with_provider(&p))),
        8 => vassert!(s, "C19.zdt.day", same(&z.day(), &z.day_with_provider(&p))),
        _ => vassert!(s, "C19.zdt.offset_nanoseconds", same(&z.offset_nanoseconds(), &z.offset_nanoseconds_with_provider(&p))),
    }
    vcover!(s, "C19.zdt.reach", true);
    core::mem::forget(z);
}

/// FFI: every variant of every converted enum maps to the variant of the same name
pub fn ffi_enums<S: Src>(s: &mut S) {
    use temporal_capi::options::ffi as f;
    use temporal_rs::options as o;
    let m = s.u8_in(0, 8);
    let fm = match m {
        0 => f::RoundingMode::Ceil, 1 => f::RoundingMode::Floor, 2 => f::RoundingMode::Expand, 3 => f::RoundingMode::Trunc,
        4 => f::RoundingMode::HalfCeil, 5 => f::RoundingMode::HalfFloor, 6 => f::RoundingMode::HalfExpand,
        7 => f::RoundingMode::HalfTrunc, _ => f::RoundingMode::HalfEven,
    };
    let cm: o::RoundingMode = fm.into();
    vassert!(s, "C19.ffi.rounding_mode_variant", mode_idx(cm) == m);
    let u = s.u8_in(0, 10);
    let fu = match u {
        0 => f::Unit::Auto, 1 => f::Unit::Nanosecond, 2 => f::Unit::Microsecond, 3 => f::Unit::Millisecond, 4 => f::Unit::Second,
        5 => f::Unit::Minute, 6 => f::Unit::Hour, 7 => f::Unit::Day, 8 => f::Unit::Week, 9 => f::Unit::Month, _ => f::Unit::Year,
    };
    let cu: o::Unit = fu.into();
    vassert!(s, "C19.ffi.unit_variant", unit_idx(cu) == u);
    let ov: o::ArithmeticOverflow = if s.bool() { f::ArithmeticOverflow::Reject.into() } else { f::ArithmeticOverflow::Constrain.into() };
    let _ = ov;
    let d = s.u8_in(0, 3);
    let fd = match d { 0 => f::Disambiguation::Compatible, 1 => f::Disambiguation::Earlier, 2 => f::Disambiguation::Later, _ => f::Disambiguation::Reject };
    let cd: o::Disambiguation = fd.into();
    let want = match d { 0 => o::Disambiguation::Compatible, 1 => o::Disambiguation::Earlier, 2 => o::Disambiguation::Later, _ => o::Disambiguation::Reject };
    vassert!(s, "C19.ffi.disambiguation_variant", cd == want);
    let od = s.u8_in(0, 3);
    let fo = match od { 0 => f::OffsetDisambiguation::Use, 1 => f::OffsetDisambiguation::Prefer, 2 => f::OffsetDisambiguation::Ignore, _ => f::OffsetDisambiguation::Reject };
    let co: o::OffsetDisambiguation = fo.into();
    let wo = match od { 0 => o::OffsetDisambiguation::Use, 1 => o::OffsetDisambiguation::Prefer, 2 => o::OffsetDisambiguation::Ignore, _ => o::OffsetDisambiguation::Reject };
    vassert!(s, "C19.ffi.offset_disambiguation_variant", co == wo);
}

/// FFI PlainTime: constructors and accessors against the core type, each accessor wired to its own field
pub fn ffi_plain_time<S: Src>(s: &mut S) {
    use temporal_capi::plain_time::ffi::PlainTime as F;
    let (h, mi, sec) = (s.u8(), s.u8(), s.u8());
    let (ms, us, ns) = (s.u16(), s.u16(), s.u16());
    let strict = s.bool();
    let (f, c) = if strict {
        (F::try_create(h, mi, sec, ms, us, ns), temporal_rs::PlainTime::try_new(h, mi, sec, ms, us, ns))
    } else {
        (F::create(h, mi, sec, ms, us, ns), temporal_rs::PlainTime::new(h, mi, sec, ms, us, ns))
    };
    vcover!(s, "C19.ffi_time.error_reachable", c.is_err());
    match (f, c) {
        (Ok(f), Ok(c)) => {
            vassert!(s, "C19.ffi_time.accessors",
                f.hour() == c.hour() && f.minute() == c.minute() && f.second() == c.second()
                && f.millisecond() == c.millisecond() && f.microsecond() == c.microsecond() && f.nanosecond() == c.nanosecond());
            core::mem::forget(f);
        }
        (Err(e), Err(c)) => {
            let k: temporal_capi::error::ffi::ErrorKind = c.kind().into();
            vassert!(s, "C19.ffi_time.same_error_kind", (e.kind as u8) == (k as u8));
        }
        _ => vassert!(s, "C19.ffi_time.same_outcome", false),
    }
}

crate::harnesses! { REGISTRY;
    c19_zdt_hour [unwind 3] = |s| zdt_accessor(s, 0);
    c19_zdt_minute [unwind 3] = |s| zdt_accessor(s, 1);
    c19_zdt_second [unwind 3] = |s| zdt_accessor(s, 2);
    c19_zdt_millisecond [unwind 3] = |s| zdt_accessor(s, 3);
    c19_zdt_microsecond [unwind 3] = |s| zdt_accessor(s, 4);
    c19_zdt_nanosecond [unwind 3] = |s| zdt_accessor(s, 5);
    c19_zdt_year [unwind 3] = |s| zdt_accessor(s, 6);
    c19_zdt_month [unwind 3] = |s| zdt_accessor(s, 7);
    c19_zdt_day [unwind 3] = |s| zdt_accessor(s, 8);
    c19_zdt_offset_nanoseconds [unwind 3] = |s| zdt_accessor(s, 9);
    c19_ffi_enums [unwind 3] = |s| ffi_enums(s);
    c19_ffi_plain_time [unwind 3] = |s| ffi_plain_time(s);
}
