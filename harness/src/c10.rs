//! C10 — each operation accepts exactly the option combinations Temporal allows and resolves
//! omitted options to the specified defaults.  Everything symbolic at once; the oracle is a
//! table-driven transcription of GetDifferenceSettings / Duration.round / round / toString options.
use crate::common::*;
use crate::src::Src;
use crate::{vassert, vcover};
use temporal_rs::error::ErrorKind;
use temporal_rs::options::{
    DifferenceSettings, RoundingIncrement, RoundingMode, RoundingOptions, ToStringRoundingOptions,
    Unit, UnitGroup,
};
use temporal_rs::parsers::Precision;
use temporal_rs::verif_hooks as h;

fn any_opt_unit<S: Src>(s: &mut S) -> Option<u8> {
    let some = s.bool();
    let u = s.u8_in(0, 10);
    if some {
        Some(u)
    } else {
        None
    }
}

fn any_opt_mode<S: Src>(s: &mut S) -> Option<u8> {
    let some = s.bool();
    let m = s.u8_in(0, 8);
    if some {
        Some(m)
    } else {
        None
    }
}

fn any_opt_inc<S: Src>(s: &mut S) -> Option<u32> {
    let some = s.bool();
    let v = s.u32_in(1, 1_000_000_000);
    if some {
        Some(v)
    } else {
        None
    }
}

fn inc_of(v: u32) -> RoundingIncrement {
    // v is assumed in 1..=1e9, the documented validity range of RoundingIncrement
    unsafe { RoundingIncrement::new_unchecked(v) }
}

/// group: 0 date, 1 time, 2 datetime
fn in_group(group: u8, u: u8) -> bool {
    match group {
        0 => (7..=10).contains(&u),
        1 => (1..=6).contains(&u),
        _ => (1..=10).contains(&u),
    }
}

fn group_of(g: u8) -> UnitGroup {
    match g {
        0 => UnitGroup::Date,
        1 => UnitGroup::Time,
        _ => UnitGroup::DateTime,
    }
}

/// MaximumTemporalDurationRoundingIncrement
fn max_increment(u: u8) -> Option<u32> {
    match u {
        6 => Some(24),
        5 | 4 => Some(60),
        3 | 2 | 1 => Some(1000),
        _ => None,
    }
}

type Resolved = (u8, u8, u32, u8);

/// GetDifferenceSettings
fn ref_diff(
    largest: Option<u8>,
    smallest: Option<u8>,
    inc: Option<u32>,
    mode: Option<u8>,
    since: bool,
    group: u8,
    fb_largest: u8,
    fb_smallest: u8,
) -> Option<Resolved> {
    let l = match largest {
        None | Some(0) => 0,
        Some(u) if in_group(group, u) => u,
        _ => return None,
    };
    let s = match smallest {
        None => fb_smallest,
        Some(u) if in_group(group, u) => u,
        _ => return None,
    };
    let inc = inc.unwrap_or(1);
    let mode = mode.unwrap_or(3);
    let mode = if since { ref_negate(mode) } else { mode };
    let default_largest = if fb_largest > s { fb_largest } else { s };
    let l = if l == 0 { default_largest } else { l };
    if l < s {
        return None;
    }
    if let Some(max) = max_increment(s) {
        if inc >= max || max % inc != 0 {
            return None;
        }
    }
    Some((l, s, inc, mode))
}

/// the six caller configurations of GetDifferenceSettings in the crate
fn caller_cfg(i: u8) -> (u8, u8, u8) {
    match i {
        0 => (1, 6, 1),  // PlainTime: time, hour, nanosecond
        1 => (0, 7, 7),  // PlainDate: date, day, day
        2 => (1, 4, 1),  // Instant: time, second, nanosecond
        3 => (2, 7, 1),  // PlainDateTime: datetime, day, nanosecond
        4 => (0, 10, 9), // PlainYearMonth: date, year, month
        _ => (2, 6, 1),  // ZonedDateTime: datetime, hour, nanosecond
    }
}

fn check_resolved<S: Src>(
    s: &mut S,
    got: Result<h::Resolved, temporal_rs::TemporalError>,
    want: Option<Resolved>,
) -> (bool, bool, bool, bool) {
    // returns (accept_ok, reject_ok, values_ok, kind_ok)
    let _ = s;
    match (got, want) {
        (Ok((l, sm, i, m)), Some((wl, ws, wi, wm))) => (
            true,
            true,
            unit_idx(l) == wl && unit_idx(sm) == ws && i.get() == wi && mode_idx(m) == wm,
            true,
        ),
        (Ok(_), None) => (true, false, true, true),
        (Err(e), Some(_)) => (false, true, true, e.kind() == ErrorKind::Range),
        (Err(e), None) => (true, true, true, e.kind() == ErrorKind::Range),
    }
}

pub fn diff_settings<S: Src>(s: &mut S) {
    let largest = any_opt_unit(s);
    let smallest = any_opt_unit(s);
    let inc = any_opt_inc(s);
    let mode = any_opt_mode(s);
    let since = s.bool();
    let cfg = s.u8_in(0, 5);
    let (group, fb_l, fb_s) = caller_cfg(cfg);
    let mut ds = DifferenceSettings::default();
    ds.largest_unit = largest.map(unit_of);
    ds.smallest_unit = smallest.map(unit_of);
    ds.increment = inc.map(inc_of);
    ds.rounding_mode = mode.map(mode_of);
    let got = h::resolve_diff_settings(ds, since, group_of(group), unit_of(fb_l), unit_of(fb_s));
    let want = ref_diff(largest, smallest, inc, mode, since, group, fb_l, fb_s);
    vcover!(s, "C10.diff.accepting_cell_reachable", want.is_some());
    vcover!(s, "C10.diff.rejecting_cell_reachable", want.is_none());
    let (a, r, v, k) = check_resolved(s, got, want);
    vassert!(s, "C10.diff.accepts_every_allowed_combination", a);
    vassert!(s, "C10.diff.rejects_every_other_combination", r);
    vassert!(s, "C10.diff.resolved_defaults", v);
    vassert!(s, "C10.diff.rejection_is_range_error", k);
}

/// Duration.prototype.round option resolution
fn ref_duration(
    largest: Option<u8>,
    smallest: Option<u8>,
    inc: Option<u32>,
    mode: Option<u8>,
    existing: u8,
) -> Option<Resolved> {
    if largest.is_none() && smallest.is_none() {
        return None;
    }
    let s = match smallest {
        None => 1,
        Some(0) => return None,
        Some(u) => u,
    };
    let default_largest = if existing > s { existing } else { s };
    let l = match largest {
        None | Some(0) => default_largest,
        Some(u) => u,
    };
    if l < s {
        return None;
    }
    let inc = inc.unwrap_or(1);
    if let Some(max) = max_increment(s) {
        if inc >= max || max % inc != 0 {
            return None;
        }
    }
    Some((l, s, inc, mode.unwrap_or(6)))
}

pub fn duration_options<S: Src>(s: &mut S) {
    let largest = any_opt_unit(s);
    let smallest = any_opt_unit(s);
    let inc = any_opt_inc(s);
    let mode = any_opt_mode(s);
    let existing = s.u8_in(1, 10);
    let mut o = RoundingOptions::default();
    o.largest_unit = largest.map(unit_of);
    o.smallest_unit = smallest.map(unit_of);
    o.increment = inc.map(inc_of);
    o.rounding_mode = mode.map(mode_of);
    let got = h::resolve_duration_options(o, unit_of(existing));
    let want = ref_duration(largest, smallest, inc, mode, existing);
    // Temporal additionally rejects increment > 1 with a date smallestUnit different from largestUnit;
    // that later-added rule is left unasserted in either direction.
    let unasserted = matches!(want, Some((l, sm, i, _)) if i > 1 && sm >= 7 && l != sm);
    s.assume(!unasserted);
    vcover!(s, "C10.duration.accepting_cell_reachable", want.is_some());
    vcover!(s, "C10.duration.rejecting_cell_reachable", want.is_none());
    let (a, r, v, k) = check_resolved(s, got, want);
    vassert!(s, "C10.duration.accepts_every_allowed_combination", a);
    vassert!(s, "C10.duration.rejects_every_other_combination", r);
    vassert!(s, "C10.duration.resolved_defaults", v);
    vassert!(s, "C10.duration.rejection_is_range_error", k);
}

/// PlainDateTime / ZonedDateTime round options
pub fn datetime_options<S: Src>(s: &mut S) {
    let largest = any_opt_unit(s);
    let smallest = any_opt_unit(s);
    let inc = any_opt_inc(s);
    let mode = any_opt_mode(s);
    let mut o = RoundingOptions::default();
    o.largest_unit = largest.map(unit_of);
    o.smallest_unit = smallest.map(unit_of);
    o.increment = inc.map(inc_of);
    o.rounding_mode = mode.map(mode_of);
    let got = h::resolve_datetime_options(o);
    let i = inc.unwrap_or(1);
    let want = match smallest {
        Some(7) if i == 1 => Some((0u8, 7u8, 1u32, mode.unwrap_or(6))),
        Some(u) if (1..=6).contains(&u) => {
            let max = max_increment(u).unwrap_or(1);
            if i < max && max % i == 0 {
                Some((0, u, i, mode.unwrap_or(6)))
            } else {
                None
            }
        }
        _ => None,
    };
    vcover!(s, "C10.datetime.accepting_cell_reachable", want.is_some());
    vcover!(s, "C10.datetime.rejecting_cell_reachable", want.is_none());
    let (a, r, v, k) = check_resolved(s, got, want);
    vassert!(s, "C10.datetime.accepts_every_allowed_combination", a);
    vassert!(s, "C10.datetime.rejects_every_other_combination", r);
    vassert!(s, "C10.datetime.resolved_defaults", v);
    vassert!(s, "C10.datetime.rejection_is_range_error", k);
}

/// Instant round options: increment must divide one day (inclusive maximum)
pub fn instant_options<S: Src>(s: &mut S, unit: Option<u8>) {
    let smallest = match unit {
        Some(u) => Some(u),
        None => {
            // every other case: absent, auto, or a date unit
            let o = any_opt_unit(s);
            s.assume(!matches!(o, Some(u) if (1..=6).contains(&u)));
            o
        }
    };
    let inc = any_opt_inc(s);
    let mode = any_opt_mode(s);
    let mut o = RoundingOptions::default();
    o.largest_unit = None;
    o.smallest_unit = smallest.map(unit_of);
    o.increment = inc.map(inc_of);
    o.rounding_mode = mode.map(mode_of);
    let got = h::resolve_instant_options(o);
    let i = inc.unwrap_or(1) as u64;
    let want = match smallest {
        Some(u) if (1..=6).contains(&u) => {
            let per_day: u64 = 86_400_000_000_000 / (unit_ns(u) as u64);
            if i <= per_day && per_day % i == 0 {
                Some((0u8, u, i as u32, mode.unwrap_or(6)))
            } else {
                None
            }
        }
        _ => None,
    };
    vcover!(s, "C10.instant.accepting_cell_reachable", want.is_some() || unit.is_none());
    vcover!(s, "C10.instant.rejecting_cell_reachable", want.is_none());
    let (a, r, v, k) = check_resolved(s, got, want);
    vassert!(s, "C10.instant.accepts_every_allowed_combination", a);
    vassert!(s, "C10.instant.rejects_every_other_combination", r);
    vassert!(s, "C10.instant.resolved_defaults", v);
    vassert!(s, "C10.instant.rejection_is_range_error", k);
}

/// ToStringRoundingOptions::resolve (ToSecondsStringPrecisionRecord)
pub fn to_string_options<S: Src>(s: &mut S) {
    let smallest = any_opt_unit(s);
    let mode = any_opt_mode(s);
    let auto = s.bool();
    let digits = s.u8();
    let opts = ToStringRoundingOptions {
        precision: if auto { Precision::Auto } else { Precision::Digit(digits) },
        smallest_unit: smallest.map(unit_of),
        rounding_mode: mode.map(mode_of),
    };
    let got = h::resolve_to_string_options(&opts);
    // (precision: None=minute, Some(255)=auto, Some(d); unit; increment)
    let want: Option<(Option<u8>, u8, u32)> = match smallest {
        Some(5) => Some((None, 5, 1)),
        Some(4) => Some((Some(0), 4, 1)),
        Some(3) => Some((Some(3), 3, 1)),
        Some(2) => Some((Some(6), 2, 1)),
        Some(1) => Some((Some(9), 1, 1)),
        Some(_) => None,
        None => {
            if auto {
                Some((Some(255), 1, 1))
            } else {
                match digits {
                    0 => Some((Some(0), 4, 1)),
                    1 => Some((Some(1), 3, 100)),
                    2 => Some((Some(2), 3, 10)),
                    3 => Some((Some(3), 3, 1)),
                    4 => Some((Some(4), 2, 100)),
                    5 => Some((Some(5), 2, 10)),
                    6 => Some((Some(6), 2, 1)),
                    7 => Some((Some(7), 1, 100)),
                    8 => Some((Some(8), 1, 10)),
                    9 => Some((Some(9), 1, 1)),
                    _ => None,
                }
            }
        }
    };
    vcover!(s, "C10.to_string.accepting_cell_reachable", want.is_some());
    vcover!(s, "C10.to_string.rejecting_cell_reachable", want.is_none());
    match (got, want) {
        (Ok((p, u, m, i)), Some((wp, wu, wi))) => {
            let pv = match p {
                Precision::Minute => None,
                Precision::Auto => Some(255),
                Precision::Digit(d) => Some(d),
            };
            vassert!(s, "C10.to_string.resolved_defaults",
                pv == wp && unit_idx(u) == wu && i.get() == wi && mode_idx(m) == mode.unwrap_or(3));
        }
        (Ok(_), None) => vassert!(s, "C10.to_string.rejects_every_other_combination", false),
        (Err(_), Some(_)) => vassert!(s, "C10.to_string.accepts_every_allowed_combination", false),
        (Err(e), None) => vassert!(s, "C10.to_string.rejection_is_range_error", e.kind() == ErrorKind::Range),
    }
}

crate::harnesses! { REGISTRY;
    c10_diff_settings [unwind 2] = |s| diff_settings(s);
    c10_duration_options [unwind 2] = |s| duration_options(s);
    c10_datetime_options [unwind 2] = |s| datetime_options(s);
    c10_instant_options_ns [unwind 2] = |s| instant_options(s, Some(1));
    c10_instant_options_us [unwind 2] = |s| instant_options(s, Some(2));
    c10_instant_options_ms [unwind 2] = |s| instant_options(s, Some(3));
    c10_instant_options_s [unwind 2] = |s| instant_options(s, Some(4));
    c10_instant_options_min [unwind 2] = |s| instant_options(s, Some(5));
    c10_instant_options_h [unwind 2] = |s| instant_options(s, Some(6));
    c10_instant_options_other [unwind 2] = |s| instant_options(s, None);
    c10_to_string_options [unwind 2] = |s| to_string_options(s);
}
