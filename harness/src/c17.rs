//! C17 — with/from_partial use only supplied fields; constrain clamps, reject errors.
use crate::common::*;
use crate::src::Src;
use crate::{vassert, vcover};
use temporal_rs::error::ErrorKind;
use temporal_rs::options::ArithmeticOverflow;
use temporal_rs::partial::{PartialDate, PartialTime};
use temporal_rs::verif_hooks as h;
use temporal_rs::{Calendar, MonthCode, PlainDate, PlainTime};

fn opt_u8<S: Src>(s: &mut S) -> Option<u8> {
    let some = s.bool();
    let v = s.u8();
    if some { Some(v) } else { None }
}

fn opt_u16<S: Src>(s: &mut S) -> Option<u16> {
    let some = s.bool();
    let v = s.u16();
    if some { Some(v) } else { None }
}

/// an arbitrary syntactically valid month code: 'M' d d ['L'] (None, or Some(code))
fn opt_month_code<S: Src>(s: &mut S) -> Option<(u8, bool, MonthCode)> {
    let some = s.bool();
    let d1 = s.u8_in(0, 9);
    let d2 = s.u8_in(0, 9);
    let leap = s.bool();
    if !some {
        return None;
    }
    let bytes = [b'M', b'0' + d1, b'0' + d2, b'L'];
    let n = if leap { 4 } else { 3 };
    match MonthCode::try_from_utf8(&bytes[..n]) {
        Ok(mc) => Some((d1 * 10 + d2, leap, mc)),
        Err(_) => None,
    }
}

fn overflow_of<S: Src>(s: &mut S) -> (Option<ArithmeticOverflow>, bool) {
    // (value passed, effective reject?)
    match s.u8_in(0, 2) {
        0 => (None, false),
        1 => (Some(ArithmeticOverflow::Constrain), false),
        _ => (Some(ArithmeticOverflow::Reject), true),
    }
}

#[derive(PartialEq, Clone, Copy)]
enum Want {
    Date(i32, u8, u8),
    TypeErr,
    RangeErr,
}

/// reference merge for the ISO calendar (CalendarResolveFields + RegulateISODate)
fn ref_date(year: Option<i32>, month: Option<u8>, code: Option<(u8, bool)>, day: Option<u8>, reject: bool) -> Want {
    let (Some(y), Some(d)) = (year, day) else { return Want::TypeErr };
    if month.is_none() && code.is_none() {
        return Want::TypeErr;
    }
    let m = match (code, month) {
        (Some((cm, leap)), mo) => {
            if let Some(mv) = mo {
                if mv != cm {
                    return Want::RangeErr;
                }
            }
            if leap || !(1..=12).contains(&cm) {
                return Want::RangeErr; // not a month code of the ISO calendar
            }
            cm
        }
        (None, Some(mv)) => {
            if reject {
                if !(1..=12).contains(&mv) {
                    return Want::RangeErr;
                }
                mv
            } else {
                mv.clamp(1, 12)
            }
        }
        (None, None) => return Want::TypeErr,
    };
    let dim = ref_dim(y, m);
    let dd = if reject {
        if d < 1 || d > dim {
            return Want::RangeErr;
        }
        d
    } else {
        d.clamp(1, dim)
    };
    Want::Date(y, m, dd)
}

fn check_date<S: Src>(s: &mut S, got: Result<PlainDate, temporal_rs::TemporalError>, want: Want) {
    match got {
        Ok(d) => {
            match want {
                Want::Date(y, m, dd) => {
                    vassert!(s, "C17.date.fields_merged_and_regulated", d.iso_year() == y && d.iso_month() == m && d.iso_day() == dd);
                }
                Want::TypeErr => vassert!(s, "C17.date.missing_field_is_type_error", false),
                Want::RangeErr => vassert!(s, "C17.date.out_of_range_or_conflict_is_range_error", false),
            }
            core::mem::forget(d);
        }
        Err(e) => match want {
            Want::Date(..) => vassert!(s, "C17.date.valid_record_accepted", false),
            Want::TypeErr => vassert!(s, "C17.date.missing_field_is_type_error", e.kind() == ErrorKind::Type),
            Want::RangeErr => vassert!(s, "C17.date.out_of_range_or_conflict_is_range_error", e.kind() == ErrorKind::Range),
        },
    }
}

/// PlainDate::from_partial, ISO calendar, years in ylo..=yhi
pub fn date_from_partial<S: Src>(s: &mut S, ylo: i32, yhi: i32) {
    let has_year = s.bool();
    let y = s.i32_in(ylo, yhi);
    let month = opt_u8(s);
    let code = opt_month_code(s);
    let day = opt_u8(s);
    let (ov, reject) = overflow_of(s);
    let mut p = PartialDate::default();
    p.year = if has_year { Some(y) } else { None };
    p.month = month;
    p.month_code = code.map(|c| c.2);
    p.day = day;
    let mut want = ref_date(p.year, month, code.map(|c| (c.0, c.1)), day, reject);
    // a well-formed record beyond the representable range (-271821-04-19 ..= +275760-09-13) is a RangeError
    if let Want::Date(yy, mm, dd) = want {
        let days = ref_epoch_days(yy, mm, dd);
        if !(-100_000_001..=100_000_000).contains(&days) {
            vcover!(s, "C17.date.beyond_the_limit_reachable", true);
            want = Want::RangeErr;
        }
    }
    vcover!(s, "C17.date.accepting_reachable", matches!(want, Want::Date(..)));
    vcover!(s, "C17.date.clamped_day_reachable", matches!(want, Want::Date(_, _, dd) if Some(dd) != day));
    vcover!(s, "C17.date.type_error_reachable", want == Want::TypeErr);
    vcover!(s, "C17.date.range_error_reachable", want == Want::RangeErr);
    let got = PlainDate::from_partial(p, ov);
    check_date(s, got, want);
}

/// PlainDate::with on a receiver in the window: supplied fields win, the rest comes from the receiver
pub fn date_with<S: Src>(s: &mut S, ylo: i32, yhi: i32) {
    let r = any_date_in(s, ylo, yhi);
    let recv = h::plain_date_new_unchecked(r, Calendar::default());
    let has_year = s.bool();
    let y = s.i32_in(ylo, yhi);
    let month = opt_u8(s);
    let code = opt_month_code(s);
    let day = opt_u8(s);
    let (ov, reject) = overflow_of(s);
    let mut p = PartialDate::default();
    p.year = if has_year { Some(y) } else { None };
    p.month = month;
    p.month_code = code.map(|c| c.2);
    p.day = day;
    let empty = p.year.is_none() && month.is_none() && code.is_none() && day.is_none();
    // fallback: month and monthCode are taken from the receiver only when neither is supplied
    let (fm, fc) = if month.is_none() && code.is_none() { (Some(r.month), None) } else { (month, code.map(|c| (c.0, c.1))) };
    let want = if empty {
        Want::TypeErr
    } else {
        ref_date(Some(p.year.unwrap_or(r.year)), fm, fc, Some(day.unwrap_or(r.day)), reject)
    };
    vcover!(s, "C17.with.accepting_reachable", matches!(want, Want::Date(..)));
    vcover!(s, "C17.with.clamped_day_reachable", matches!(want, Want::Date(_, _, dd) if dd != day.unwrap_or(r.day)));
    let got = recv.with(p, ov);
    check_date(s, got, want);
    core::mem::forget(recv);
}

/// PlainTime::from_partial / with: every field an independent Option over its full range
pub fn time_partial<S: Src>(s: &mut S, with: bool) {
    let recv = any_time(s);
    let p = PartialTime {
        hour: opt_u8(s),
        minute: opt_u8(s),
        second: opt_u8(s),
        millisecond: opt_u16(s),
        microsecond: opt_u16(s),
        nanosecond: opt_u16(s),
    };
    let (ov, reject) = overflow_of(s);
    let empty = p.hour.is_none() && p.minute.is_none() && p.second.is_none()
        && p.millisecond.is_none() && p.microsecond.is_none() && p.nanosecond.is_none();
    let base = if with { recv } else { temporal_rs::iso::IsoTime::default() };
    let f = [
        (p.hour.map(u16::from).unwrap_or(base.hour as u16), 23u16),
        (p.minute.map(u16::from).unwrap_or(base.minute as u16), 59),
        (p.second.map(u16::from).unwrap_or(base.second as u16), 59),
        (p.millisecond.unwrap_or(base.millisecond), 999),
        (p.microsecond.unwrap_or(base.microsecond), 999),
        (p.nanosecond.unwrap_or(base.nanosecond), 999),
    ];
    let in_range = f.iter().all(|(v, hi)| v <= hi);
    let got = if with {
        match PlainTime::try_new(recv.hour, recv.minute, recv.second, recv.millisecond, recv.microsecond, recv.nanosecond) {
            Ok(t) => t.with(p, ov),
            Err(e) => Err(e),
        }
    } else {
        PlainTime::from_partial(p, ov)
    };
    vcover!(s, "C17.time.clamp_reachable", !empty && !reject && !in_range);
    match got {
        Ok(t) => {
            vassert!(s, "C17.time.empty_record_is_type_error", !empty);
            vassert!(s, "C17.time.reject_errors_on_out_of_range", !(reject && !in_range));
            let g = [t.hour() as u16, t.minute() as u16, t.second() as u16, t.millisecond(), t.microsecond(), t.nanosecond()];
            let mut ok = true;
            for i in 0..6 {
                ok &= g[i] == f[i].0.min(f[i].1);
            }
            vassert!(s, "C17.time.fields_merged_and_clamped", ok);
        }
        Err(e) => {
            if empty {
                vassert!(s, "C17.time.empty_record_is_type_error", e.kind() == ErrorKind::Type);
            } else {
                vassert!(s, "C17.time.valid_record_accepted", reject && !in_range);
                vassert!(s, "C17.time.out_of_range_is_range_error", e.kind() == ErrorKind::Range);
            }
        }
    }
}

crate::harnesses! { REGISTRY;
    c17_date_from_partial_2000 [unwind 15] = |s| date_from_partial(s, 1999, 2001);
    c17_date_from_partial_limits [unwind 15] = |s| date_from_partial(s, 275759, 275761);
    c17_date_with_2000 [unwind 15] = |s| date_with(s, 1999, 2001);
    c17_time_from_partial [unwind 8] = |s| time_partial(s, false);
    c17_time_with [unwind 8] = |s| time_partial(s, true);
}
