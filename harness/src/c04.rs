//! C04 (Engine-K part) — PlainDate::add / subtract at API level (calendar dispatch, time units folded into whole days),
//! in a year window with small durations; the ISO kernels are decided for the whole range by Engine M.
use crate::common::*;
use crate::src::Src;
use crate::{vassert, vcover};
use temporal_rs::error::ErrorKind;
use temporal_rs::options::ArithmeticOverflow;
use temporal_rs::primitive::FiniteF64;
use temporal_rs::verif_hooks as h;
use temporal_rs::{Calendar, Duration};

/// add `n` days (|n| <= 120) to a valid date by walking month boundaries (independent of any day-count kernel)
fn walk_days(mut y: i32, mut m: u8, d: u8, n: i32) -> (i32, u8, u8) {
    let mut day = d as i32 + n;
    let mut guard = 0;
    while guard < 6 {
        guard += 1;
        if day < 1 {
            if m == 1 {
                m = 12;
                y -= 1;
            } else {
                m -= 1;
            }
            day += ref_dim(y, m) as i32;
        } else if day > ref_dim(y, m) as i32 {
            day -= ref_dim(y, m) as i32;
            if m == 12 {
                m = 1;
                y += 1;
            } else {
                m += 1;
            }
        } else {
            break;
        }
    }
    (y, m, day as u8)
}

pub fn date_add_api<S: Src>(s: &mut S, ylo: i32, yhi: i32, subtract: bool) {
    let iso = any_date_in(s, ylo, yhi);
    let sign = if s.bool() { 1i32 } else { -1 };
    let years = sign * s.i32_in(0, 1);
    let months = sign * s.i32_in(0, 13);
    let weeks = sign * s.i32_in(0, 2);
    let days = sign * s.i32_in(0, 40);
    let hours = sign * s.i32_in(0, 60);
    let reject = s.bool();
    let f = |v: i32| FiniteF64::from(v);
    let z = FiniteF64::default();
    let Ok(dur) = Duration::new(f(years), f(months), f(weeks), f(days), f(hours), z, z, z, z, z) else { return };
    let date = h::plain_date_new_unchecked(iso, Calendar::default());
    let ov = if reject { ArithmeticOverflow::Reject } else { ArithmeticOverflow::Constrain };
    let got = if subtract { date.subtract(&dur.negated(), Some(ov)) } else { date.add(&dur, Some(ov)) };
    // reference AddISODate: years/months, regulate the day, then weeks/days plus the whole days in the time part
    let mi = (iso.year * 12 + (iso.month as i32 - 1)) + years * 12 + months;
    let (y1, m1) = (mi.div_euclid(12), (mi.rem_euclid(12) + 1) as u8);
    let dim = ref_dim(y1, m1);
    let day_ok = iso.day <= dim;
    let d1 = iso.day.min(dim);
    let whole_days = hours / 24; // truncation toward zero: time units contribute whole days only
    let n = days + 7 * weeks + whole_days;
    let want = walk_days(y1, m1, d1, n);
    vcover!(s, "C04.api.clamped_month_end", !day_ok && !reject);
    vcover!(s, "C04.api.time_part_carries_days_with_calendar_units", (years != 0 || months != 0 || weeks != 0) && whole_days != 0);
    match got {
        Ok(r) => {
            vassert!(s, "C04.api.reject_errors_on_clamped_day", day_ok || !reject);
            vassert!(s, "C04.api.result_is_reference_add", (r.iso_year(), r.iso_month(), r.iso_day()) == want);
            core::mem::forget(r);
        }
        Err(e) => {
            vassert!(s, "C04.api.in_range_add_succeeds", !day_ok && reject);
            vassert!(s, "C04.api.rejection_is_range_error", e.kind() == ErrorKind::Range);
        }
    }
    core::mem::forget(date);
}

crate::harnesses! { REGISTRY;
    c04_date_add_api_2000 [unwind 14] = |s| date_add_api(s, 1999, 2001, false);
    c04_date_subtract_api_2000 [unwind 14] = |s| date_add_api(s, 1999, 2001, true);
}
