//! C04 (Engine-K part) — PlainDate::add / subtract at API level (calendar dispatch, time units folded into whole days),
//! in a year window with small durations; the ISO kernels are decided for the whole range by Engine M.
use crate::common::*;
use crate::src::Src;
use crate::{vassert, vcover};
use temporal_rs::error::ErrorKind;
use temporal_rs::options::ArithmeticOverflow;
use temporal_rs::primitive::FiniteF64;
use temporal_rs::verif_hooks as h;
use temporal_rs::{Calendar, Duration};

/// add `n` days (|n| <= 120) to a valid date by walking month boundaries (independent of any day-count kernel)
fn walk_days(mut y: i32, mut m: u8, d: u8, n: i32) -> (i32, u8, u8) {
    let mut day = d as i32 + n;
    let mut guard = 0;
    while guard < 6 {
        guard += 1;
        if day < 1 {
            if m == 1 {
                m = 12;
                y -= 1;
            } else {
                m -= 1;
            }
            day += ref_dim(y, m) as i32;
        } else if day > ref_dim(y, m) as i32 {
            day -= ref_dim(y, m) as i32;
            if m == 12 {
                m = 1;
                y += 1;
            } else {
                m += 1;
            }
        } else {
            break;
        }
    }
    (y, m, day as u8)
}

pub fn date_add_api<S: Src>(s: &mut S, ylo: i32, yhi: i32, subtract: bool) {
    let iso = any_date_in(s, ylo, yhi);
    let sign = if s.bool() { 1i32 } else { -1 };
    let years = sign * s.i32_in(0, 1);
    let months = sign * s.i32_in(0, 13);
    let weeks = sign * s.i32_in(0, 2);
    let days = sign * s.i32_in(0, 40);
    let hours = sign * s.i32_in(0, 60);
    let reject = s.bool();
    let f = |v: i32| FiniteF64::from(v);
    let z = FiniteF64::default();
    let Ok(dur) = Duration::new(f(years), f(months), f(weeks), f(days), f(hours), z, z, z, z, z) else { return };
    let date = h::plain_date_new_unchecked(iso, Calendar::default());
    let ov = if reject { ArithmeticOverflow::Reject } else { ArithmeticOverflow::Constrain };
    let got = if subtract { date.subtract(&dur.negated(), Some(ov)) } else { date.add(&dur, Some(ov)) };
    // reference AddISODate: years/months, regulate the day, then weeks/days plus the whole days in the time part
    let mi = (iso.year * 12 + (iso.month as i32 - 1)) + years * 12 + months;
    let (y1, m1) = (mi.div_euclid(12), (mi.rem_euclid(12) + 1) as u8);
    let dim = ref_dim(y1, m1);
    let day_ok = iso.day <= dim;
    let d1 = iso.day.min(dim);
    let whole_days = hours / 24; // truncation toward zero: time units contribute whole days only
    let n = days + 7 * weeks + whole_days;
    let want = walk_days(y1, m1, d1, n);
    vcover!(s, "C04.api.clamped_month_end", !day_ok && !reject);
    vcover!(s, "C04.api.time_part_carries_days_with_calendar_units", (years != 0 || months != 0 || weeks != 0) && whole_days != 0);
    match got {
        Ok(r) => {
            vassert!(s, "C04.api.reject_errors_on_clamped_day", day_ok || !reject);
            vassert!(s, "C04.api.result_is_reference_add", (r.iso_year(), r.iso_month(), r.iso_day()) == want);
            core::mem::forget(r);
        }
        Err(e) => {
            vassert!(s, "C04.api.in_range_add_succeeds", !day_ok && reject);
            vassert!(s, "C04.api.rejection_is_range_error", e.kind() == ErrorKind::Range);
        }
    }
    core::mem::forget(date);
}

/// PlainDate::until with largestUnit year / month (DifferenceISODate behind the API): sign-uniform, balanced,
/// the year-month part is the largest that does not pass the end date when applied to the *unconstrained* start day
/// (ISODateSurpasses), and the days are the rest
pub fn date_until_api<S: Src>(s: &mut S, ylo: i32, yhi: i32, by_year: bool) {
    use temporal_rs::options::{DifferenceSettings, Unit};
    let a = any_date_in(s, ylo, yhi);
    let b = any_date_in(s, ylo, yhi);
    let mut st = DifferenceSettings::default();
    st.largest_unit = Some(if by_year { Unit::Year } else { Unit::Month });
    let da = h::plain_date_new_unchecked(a, Calendar::default());
    let db = h::plain_date_new_unchecked(b, Calendar::default());
    let ea = ref_epoch_days(a.year, a.month, a.day);
    let eb = ref_epoch_days(b.year, b.month, b.day);
    let sign: i64 = if ea < eb { 1 } else if ea > eb { -1 } else { 0 };
    vcover!(s, "C04.until.leap_day_to_feb_28", a.month == 2 && a.day == 29 && b.month == 2 && b.day == 28 && b.year > a.year);
    match da.until(&db, st) {
        Ok(d) => {
            let (y, mo, w, dd) = (d.years().as_inner() as i64, d.months().as_inner() as i64, d.weeks().as_inner() as i64, d.days().as_inner() as i64);
            vassert!(s, "C04.until.sign_uniform", y * sign >= 0 && mo * sign >= 0 && dd * sign >= 0 && w == 0);
            vassert!(s, "C04.until.balanced", if by_year { mo.abs() < 12 } else { y == 0 });
            // intermediate year-month and the constrained day reached by adding the year-month part
            let mi = (a.year as i64) * 12 + (a.month as i64 - 1) + y * 12 + mo;
            let (yi, mi1) = (mi.div_euclid(12) as i32, (mi.rem_euclid(12) + 1) as u8);
            let di = a.day.min(ref_dim(yi, mi1));
            vassert!(s, "C04.until.add_back_reaches_end", ref_epoch_days(yi, mi1, di) + dd == eb);
            // maximal: (yi, mi, a.day) does not surpass b, one more month does (lexicographic on the raw triple)
            let key = |yy: i32, mm: u8, d: u8| (yy as i64) * 10_000 + (mm as i64) * 100 + d as i64;
            let here = key(yi, mi1, a.day);
            let nx = mi + sign;
            let next = key(nx.div_euclid(12) as i32, (nx.rem_euclid(12) + 1) as u8, a.day);
            let end = key(b.year, b.month, b.day);
            if sign != 0 {
                vassert!(s, "C04.until.year_month_part_is_maximal", (here - end) * sign <= 0 && (next - end) * sign > 0);
            }
            core::mem::forget(d);
        }
        Err(_) => vassert!(s, "C04.until.succeeds_on_representable_dates", false),
    }
    core::mem::forget((da, db));
}

crate::harnesses! { REGISTRY;
    c04_date_until_years_2020 [unwind 15] = |s| date_until_api(s, 2019, 2021, true);
    c04_date_until_months_2020 [unwind 27] = |s| date_until_api(s, 2020, 2021, false);
    c04_date_add_api_2000 [unwind 14] = |s| date_add_api(s, 1999, 2001, false);
    c04_date_subtract_api_2000 [unwind 14] = |s| date_add_api(s, 1999, 2001, true);
}
