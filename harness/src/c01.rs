//! C01 (Engine-K part) — the ISO-branch calendar getters agree with the proleptic Gregorian rule.
//! These run the calendrical library's ISO code; the day-count kernel itself is decided for the whole range by Engine M.
use crate::common::*;
use crate::src::Src;
use crate::{vassert, vcover};
use temporal_rs::Calendar;

fn ref_day_of_year(y: i32, m: u8, d: u8) -> u16 {
    let cum: [u16; 12] = [0, 31, 59, 90, 120, 151, 181, 212, 243, 273, 304, 334];
    cum[(m - 1) as usize] + d as u16 + if ref_leap(y) && m > 2 { 1 } else { 0 }
}

/// ISO 8601 weekday, Monday = 1 .. Sunday = 7 (1970-01-01 was a Thursday)
fn ref_day_of_week(y: i32, m: u8, d: u8) -> u16 {
    ((ref_epoch_days(y, m, d) + 3).rem_euclid(7) + 1) as u16
}

fn weeks_in_iso_year(y: i32) -> u16 {
    // a year has 53 ISO weeks iff Jan 1 is a Thursday, or it is a leap year and Jan 1 is a Wednesday
    let jan1 = ref_day_of_week(y, 1, 1);
    if jan1 == 4 || (ref_leap(y) && jan1 == 3) { 53 } else { 52 }
}

/// (week, year-of-week) by the ISO 8601 rule: week = (doy - dow + 10) / 7
fn ref_iso_week(y: i32, m: u8, d: u8) -> (u16, i32) {
    let doy = ref_day_of_year(y, m, d) as i32;
    let dow = ref_day_of_week(y, m, d) as i32;
    let w = (doy - dow + 10) / 7;
    if w < 1 {
        (weeks_in_iso_year(y - 1), y - 1)
    } else if w > weeks_in_iso_year(y) as i32 {
        (1, y + 1)
    } else {
        (w as u16, y)
    }
}

pub fn iso_getters<S: Src>(s: &mut S, ylo: i32, yhi: i32) {
    let iso = any_date_in(s, ylo, yhi);
    let cal = Calendar::default();
    let (y, m, d) = (iso.year, iso.month, iso.day);
    vcover!(s, "C01.getters.leap_day", m == 2 && d == 29);
    vcover!(s, "C01.getters.week_of_previous_year", ref_iso_week(y, m, d).1 == y - 1);
    vassert!(s, "C01.getters.day_of_week", cal.day_of_week(&iso) == ref_day_of_week(y, m, d));
    vassert!(s, "C01.getters.day_of_year", cal.day_of_year(&iso) == ref_day_of_year(y, m, d));
    vassert!(s, "C01.getters.days_in_month", cal.days_in_month(&iso) == ref_dim(y, m) as u16);
    vassert!(s, "C01.getters.days_in_year", cal.days_in_year(&iso) == if ref_leap(y) { 366 } else { 365 });
    vassert!(s, "C01.getters.in_leap_year", cal.in_leap_year(&iso) == ref_leap(y));
    vassert!(s, "C01.getters.months_in_year", cal.months_in_year(&iso) == 12);
    let (w, wy) = ref_iso_week(y, m, d);
    match cal.week_of_year(&iso) {
        Ok(Some(v)) => vassert!(s, "C01.getters.week_of_year", v == w),
        _ => vassert!(s, "C01.getters.week_of_year", false),
    }
    match cal.year_of_week(&iso) {
        Ok(Some(v)) => vassert!(s, "C01.getters.year_of_week", v == wy),
        _ => vassert!(s, "C01.getters.year_of_week", false),
    }
}

crate::harnesses! { REGISTRY;
    c01_iso_getters_2000 [unwind 14] = |s| iso_getters(s, 1999, 2001);
    c01_iso_getters_1970 [unwind 14] = |s| iso_getters(s, 1969, 1972);
    c01_iso_getters_1900 [unwind 14] = |s| iso_getters(s, 1899, 1904);
    c01_iso_getters_neg [unwind 14] = |s| iso_getters(s, -1, 1);
}
