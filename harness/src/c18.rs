//! C18 — year-months and month-days are canonical (hidden day 1 / reference year 1972) and count whole months.
use crate::common::*;
use crate::src::Src;
use crate::{vassert, vcover};
use core::cmp::Ordering;
use temporal_rs::error::ErrorKind;
use temporal_rs::options::ArithmeticOverflow;
use temporal_rs::partial::PartialDate;
use temporal_rs::verif_hooks as h;
use temporal_rs::{Calendar, PlainMonthDay, PlainYearMonth};

/// the same visible fields through three routes give equal values with the canonical hidden day
pub fn year_month_routes<S: Src>(s: &mut S, ylo: i32, yhi: i32) {
    let d = any_date_in(s, ylo, yhi);
    let a = PlainYearMonth::new_with_overflow(d.year, d.month, None, Calendar::default(), ArithmeticOverflow::Reject);
    let mut p = PartialDate::default();
    p.year = Some(d.year);
    p.month = Some(d.month);
    p.day = Some(d.day);
    let b = PlainYearMonth::from_partial(p, ArithmeticOverflow::Reject);
    let date = h::plain_date_new_unchecked(d, Calendar::default());
    let c = date.to_plain_year_month();
    vcover!(s, "C18.ym.day_not_one_reachable", d.day != 1);
    match (a, b, c) {
        (Ok(a), Ok(b), Ok(c)) => {
            vassert!(s, "C18.ym.visible_fields", a.iso_year() == d.year && a.iso_month() == d.month);
            vassert!(s, "C18.ym.from_partial_with_a_day_is_canonical", a.compare_iso(&b) == Ordering::Equal);
            vassert!(s, "C18.ym.from_date_is_canonical", a.compare_iso(&c) == Ordering::Equal);
            core::mem::forget((a, b, c));
        }
        _ => vassert!(s, "C18.ym.in_range_year_month_constructs_on_every_route", false),
    }
    core::mem::forget(date);
}

/// limits: -271821-04 ..= +275760-09, exact, RangeError outside; month constrained or rejected
pub fn year_month_limits<S: Src>(s: &mut S) {
    let y = s.i32();
    let m = s.u8();
    let reject = s.bool();
    s.assume((y >= -271_823 && y <= -271_819) || (y >= 275_758 && y <= 275_762) || (y >= -2 && y <= 2));
    let ov = if reject { ArithmeticOverflow::Reject } else { ArithmeticOverflow::Constrain };
    let got = PlainYearMonth::new_with_overflow(y, m, None, Calendar::default(), ov);
    let month_ok = (1..=12).contains(&m);
    let mm = m.clamp(1, 12);
    let idx = (y as i64) * 12 + (mm as i64 - 1);
    let in_limits = idx >= -271_821i64 * 12 + 3 && idx <= 275_760i64 * 12 + 8;
    let want_ok = (month_ok || !reject) && in_limits;
    vcover!(s, "C18.ym_limits.last_month_reachable", want_ok && y == 275_760 && mm == 9);
    vcover!(s, "C18.ym_limits.first_rejected_reachable", !want_ok && y == 275_760 && mm == 10);
    match got {
        Ok(v) => {
            vassert!(s, "C18.ym_limits.rejects_outside", want_ok);
            vassert!(s, "C18.ym_limits.value", v.iso_year() == y && v.iso_month() == mm);
            core::mem::forget(v);
        }
        Err(e) => {
            vassert!(s, "C18.ym_limits.accepts_inside", !want_ok);
            vassert!(s, "C18.ym_limits.rejection_is_range_error", e.kind() == ErrorKind::Range);
        }
    }
}

/// month-days: reference year 1972, Feb 29 accepted, impossible days constrained or rejected; date route canonical
pub fn month_day<S: Src>(s: &mut S) {
    let m = s.u8();
    let d = s.u8();
    let reject = s.bool();
    let ov = if reject { ArithmeticOverflow::Reject } else { ArithmeticOverflow::Constrain };
    let got = PlainMonthDay::new_with_overflow(m, d, Calendar::default(), ov, None);
    let month_ok = (1..=12).contains(&m);
    let mm = m.clamp(1, 12);
    let dim = ref_dim(1972, mm);
    let day_ok = d >= 1 && d <= dim;
    let want_ok = !reject || (month_ok && day_ok);
    vcover!(s, "C18.md.feb_29_reachable", m == 2 && d == 29);
    match got {
        Ok(v) => {
            vassert!(s, "C18.md.reject_errors_on_impossible_day", want_ok);
            vassert!(s, "C18.md.reference_year_1972", v.iso_year() == 1972);
            vassert!(s, "C18.md.value", v.iso_month() == mm && v.iso_day() == d.clamp(1, dim));
            core::mem::forget(v);
        }
        Err(e) => {
            vassert!(s, "C18.md.valid_month_day_accepted", !want_ok);
            vassert!(s, "C18.md.rejection_is_range_error", e.kind() == ErrorKind::Range);
        }
    }
}

/// PlainDate::to_plain_month_day yields the canonical month-day whatever the date's year
pub fn month_day_from_date<S: Src>(s: &mut S, ylo: i32, yhi: i32) {
    let d = any_date_in(s, ylo, yhi);
    let date = h::plain_date_new_unchecked(d, Calendar::default());
    let a = date.to_plain_month_day();
    let b = PlainMonthDay::new_with_overflow(d.month, d.day, Calendar::default(), ArithmeticOverflow::Reject, None);
    vcover!(s, "C18.md_from_date.leap_day_reachable", d.month == 2 && d.day == 29);
    match (a, b) {
        (Ok(a), Ok(b)) => {
            vassert!(s, "C18.md_from_date.canonical_reference_year", a.iso_year() == 1972);
            vassert!(s, "C18.md_from_date.equals_constructor_route", a.iso_month() == b.iso_month() && a.iso_day() == b.iso_day() && a.iso_year() == b.iso_year());
            core::mem::forget((a, b));
        }
        _ => vassert!(s, "C18.md_from_date.every_date_has_a_month_day", false),
    }
    core::mem::forget(date);
}

/// until / since / add count whole months from the first of the month, whatever the hidden reference day
pub fn year_month_arith<S: Src>(s: &mut S, ya: i32, yb: i32) {
    use temporal_rs::options::{DifferenceSettings, Unit};
    let a = any_date_in(s, ya, ya);
    let b = any_date_in(s, yb, yb);
    let explicit = s.bool(); // the low-level constructor's explicit reference day vs the canonical day 1
    let (da, db) = if explicit { (Some(a.day), Some(b.day)) } else { (None, None) };
    let (Ok(x), Ok(y)) = (
        PlainYearMonth::new_with_overflow(a.year, a.month, da, Calendar::default(), ArithmeticOverflow::Reject),
        PlainYearMonth::new_with_overflow(b.year, b.month, db, Calendar::default(), ArithmeticOverflow::Reject),
    ) else {
        vassert!(s, "C18.ym_arith.in_range_year_month_constructs", false);
        return;
    };
    let months = (b.year as i64 - a.year as i64) * 12 + (b.month as i64 - a.month as i64);
    let by_year = s.bool();
    let mut st = DifferenceSettings::default();
    st.largest_unit = Some(if by_year { Unit::Year } else { Unit::Month });
    // week and day units are refused, also between equal year-months
    let refused = s.u8_in(0, 2);
    if refused != 0 {
        let u = if refused == 1 { Unit::Week } else { Unit::Day };
        let mut bad = DifferenceSettings::default();
        if s.bool() {
            bad.largest_unit = Some(u);
        } else {
            bad.smallest_unit = Some(u);
        }
        vcover!(s, "C18.ym_arith.refused_unit_between_equal_values", months == 0);
        vassert!(s, "C18.ym_arith.week_and_day_units_are_refused", x.until(&y, bad).is_err());
        core::mem::forget((x, y));
        return;
    }
    vcover!(s, "C18.ym_arith.reference_days_in_reverse_order", explicit && months > 0 && a.day > b.day);
    match x.until(&y, st) {
        Ok(d) => {
            let got = d.years().as_inner() as i64 * 12 + d.months().as_inner() as i64;
            vassert!(s, "C18.ym_arith.until_counts_whole_months_from_the_first", got == months && d.weeks().as_inner() == 0.0 && d.days().as_inner() == 0.0);
            if by_year {
                vassert!(s, "C18.ym_arith.until_is_balanced", (d.months().as_inner() as i64).abs() < 12);
            }
            core::mem::forget(d);
        }
        Err(_) => vassert!(s, "C18.ym_arith.until_succeeds", false),
    }
    core::mem::forget((x, y));
}

/// add of whole years and months counts from the first of the month, whatever the hidden reference day
pub fn year_month_add<S: Src>(s: &mut S, ylo: i32, yhi: i32) {
    use temporal_rs::primitive::FiniteF64;
    use temporal_rs::Duration;
    let a = any_date_in(s, ylo, yhi);
    let explicit = s.bool();
    let Ok(x) = PlainYearMonth::new_with_overflow(a.year, a.month, if explicit { Some(a.day) } else { None }, Calendar::default(), ArithmeticOverflow::Reject) else {
        vassert!(s, "C18.ym_arith.in_range_year_month_constructs", false);
        return;
    };
    let sign = if s.bool() { 1i32 } else { -1 };
    let (yrs, mos) = (sign * s.i32_in(0, 1), sign * s.i32_in(0, 13));
    let reject = s.bool();
    let f = |v: i32| FiniteF64::from(v);
    let z = FiniteF64::default();
    let Ok(dur) = Duration::new(f(yrs), f(mos), z, z, z, z, z, z, z, z) else { return };
    let ov = if reject { ArithmeticOverflow::Reject } else { ArithmeticOverflow::Constrain };
    // reference: whole years and months from the first of the month (which exists in every month)
    let mi = (a.year * 12 + (a.month as i32 - 1)) + yrs * 12 + mos;
    let (wy, wm) = (mi.div_euclid(12), (mi.rem_euclid(12) + 1) as u8);
    vcover!(s, "C18.ym_arith.add_with_reference_day_31_under_reject", explicit && a.day == 31 && reject && mos == 1);
    match x.add(&dur, ov) {
        Ok(r) => {
            vassert!(s, "C18.ym_arith.add_counts_from_the_first_of_the_month", r.iso_year() == wy && r.iso_month() == wm);
            core::mem::forget(r);
        }
        Err(_) => vassert!(s, "C18.ym_arith.add_succeeds_inside_the_range", false),
    }
    core::mem::forget((x, dur));
}

crate::harnesses! { REGISTRY;
    c18_year_month_add_2020 [unwind 15] = |s| year_month_add(s, 2019, 2021);
    c18_year_month_until_2020 [unwind 15] = |s| year_month_arith(s, 2020, 2021);
    c18_year_month_since_2020 [unwind 15] = |s| year_month_arith(s, 2021, 2020);
    c18_year_month_routes_2000 [unwind 15] = |s| year_month_routes(s, 1999, 2001);
    c18_year_month_limits [unwind 15] = |s| year_month_limits(s);
    c18_month_day [unwind 15] = |s| month_day(s);
    c18_month_day_from_date_2000 [unwind 15] = |s| month_day_from_date(s, 1999, 2001);
}
