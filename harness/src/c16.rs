//! C16 — non-ISO calendar fields describe the same day as the ISO date (arithmetic calendars, year windows).
use crate::common::*;
use crate::src::Src;
use crate::{vassert, vcover};
use core::str::FromStr;
use temporal_rs::options::ArithmeticOverflow;
use temporal_rs::partial::PartialDate;
use temporal_rs::verif_hooks as h;
use temporal_rs::{Calendar, PlainDate, TinyAsciiStr};

/// fields -> date round trip and field consistency for one calendar
pub fn calendar_round_trip<S: Src>(s: &mut S, id: &str, ylo: i32, yhi: i32, use_era: bool) {
    let iso = any_date_in(s, ylo, yhi);
    let Ok(cal) = Calendar::from_str(id) else {
        vassert!(s, "C16.calendar_identifier_recognised", false);
        return;
    };
    vassert!(s, "C16.calendar_reports_canonical_identifier", cal.identifier().as_bytes() == id.as_bytes());
    let date = h::plain_date_new_unchecked(iso, cal.clone());
    let (year, month, day) = (date.year(), date.month(), date.day());
    let code = date.month_code();
    vassert!(s, "C16.day_within_days_in_month", day >= 1 && (day as u16) <= date.days_in_month());
    vassert!(s, "C16.month_within_months_in_year", month >= 1 && (month as u16) <= date.months_in_year());
    vassert!(s, "C16.changing_calendar_keeps_iso_date", date.iso_year() == iso.year && date.iso_month() == iso.month && date.iso_day() == iso.day);
    let mut p = PartialDate::default();
    p.calendar = cal.clone();
    p.month_code = Some(code);
    p.day = Some(day);
    if use_era {
        let (Some(era), Some(ey)) = (date.era(), date.era_year()) else {
            vassert!(s, "C16.era_fields_present", false);
            return;
        };
        let Ok(e19) = TinyAsciiStr::<19>::try_from_utf8(era.as_bytes()) else { return };
        p.era = Some(e19);
        p.era_year = Some(ey);
    } else {
        p.year = Some(year);
    }
    vcover!(s, "C16.reach", true);
    match PlainDate::from_partial(p, Some(ArithmeticOverflow::Reject)) {
        Ok(back) => {
            vassert!(s, "C16.rebuilding_from_fields_returns_same_iso_date",
                back.iso_year() == iso.year && back.iso_month() == iso.month && back.iso_day() == iso.day);
            core::mem::forget(back);
        }
        Err(_) => vassert!(s, "C16.own_fields_are_accepted", false),
    }
    core::mem::forget(date);
    core::mem::forget(cal);
}

crate::harnesses! { REGISTRY;
    c16_gregory_year [unwind 20] = |s| calendar_round_trip(s, "gregory", 1999, 2001, false);
    c16_gregory_era_boundary [unwind 20] = |s| calendar_round_trip(s, "gregory", -1, 1, true);
    c16_buddhist_year [unwind 20] = |s| calendar_round_trip(s, "buddhist", 1999, 2001, false);
    c16_roc_era_boundary [unwind 20] = |s| calendar_round_trip(s, "roc", 1911, 1912, true);
    c16_japanese_era_boundary [unwind 20] = |s| calendar_round_trip(s, "japanese", 2018, 2019, true);
    c16_coptic_year [unwind 20] = |s| calendar_round_trip(s, "coptic", 1999, 2001, false);
    c16_ethiopic_year [unwind 20] = |s| calendar_round_trip(s, "ethiopic", 1999, 2001, false);
    c16_indian_year [unwind 20] = |s| calendar_round_trip(s, "indian", 1999, 2001, false);
    c16_persian_year [unwind 20] = |s| calendar_round_trip(s, "persian", 1999, 2001, false);
}
