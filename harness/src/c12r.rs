//! C12 (record level) — the per-type rules every `FromStr` applies to what the generic parser returns.
//!
//! The `ixdtf` crate's character-level recogniser cannot be executed symbolically here, so under Kani its date-time
//! entry point is replaced (`kani::stub`) by a function returning **an arbitrary record** that satisfies the invariants
//! ixdtf 0.4 enforces, after invoking the caller's annotation handler with arbitrary annotations.  The record comes
//! from the harness's symbolic source, so the native replay of a counterexample renders it as IXDTF text and runs the
//! *real* parser: a reported violation always went through the real ixdtf.
use crate::common::*;
use crate::src::Src;
use crate::{vassert, vcover};
use core::str::FromStr;
use temporal_rs::error::ErrorKind;
use temporal_rs::Instant;

#[derive(Clone, Copy, Default)]
pub struct Rec {
    pub year: i32,
    pub month: u8,
    pub day: u8,
    pub has_time: bool,
    pub hour: u8,
    pub minute: u8,
    pub second: u8,
    /// 0 none, 1 ".5", 2 ".123456789", 3 ".1234567891" (ten digits)
    pub frac: u8,
    /// 0 none, 1 Z, 2 numeric offset
    pub off_kind: u8,
    pub off_neg: bool,
    pub off_hour: u8,
    pub off_minute: u8,
    pub off_second: u8,
    /// 0 none, 1 [UTC], 2 [!UTC]
    pub tz_kind: u8,
    /// number of annotations 0..=2; each: is u-ca?, critical?, value 0 iso8601 / 1 gregory
    pub n_ann: u8,
    pub ann_uca: [bool; 2],
    pub ann_crit: [bool; 2],
    pub ann_val: [u8; 2],
}

pub fn any_rec<S: Src>(s: &mut S, ylo: i32, yhi: i32) -> Rec {
    let mut r = Rec::default();
    r.year = s.i32_in(ylo, yhi);
    r.month = s.u8_in(1, 12);
    r.day = s.u8_in(1, 31);
    s.assume(r.day <= ref_dim(r.year, r.month));
    r.has_time = s.bool();
    r.hour = s.u8_in(0, 23);
    r.minute = s.u8_in(0, 59);
    r.second = s.u8_in(0, 60);
    r.frac = s.u8_in(0, 3);
    r.off_kind = s.u8_in(0, 2);
    r.off_neg = s.bool();
    r.off_hour = s.u8_in(0, 23);
    r.off_minute = s.u8_in(0, 59);
    r.off_second = s.u8_in(0, 59);
    r.tz_kind = s.u8_in(0, 2);
    r.n_ann = s.u8_in(0, 2);
    for i in 0..2 {
        r.ann_uca[i] = s.bool();
        r.ann_crit[i] = s.bool();
        r.ann_val[i] = s.u8_in(0, 1);
    }
    // the grammar has no offset without a time, and no sub-minute offset parts without a time
    s.assume(r.has_time || r.off_kind == 0);
    r
}

pub const FRACS: [&str; 4] = ["", ".5", ".123456789", ".1234567891"];
pub const FRAC_NS: [u32; 4] = [0, 500_000_000, 123_456_789, 0];

/// the record as canonical IXDTF text (native replay and documentation of what the stub stands for)
pub fn render(r: &Rec) -> String {
    let mut t = String::new();
    if (0..=9999).contains(&r.year) {
        t.push_str(&format!("{:04}", r.year));
    } else {
        t.push_str(&format!("{}{:06}", if r.year < 0 { '-' } else { '+' }, r.year.unsigned_abs()));
    }
    t.push_str(&format!("-{:02}-{:02}", r.month, r.day));
    if r.has_time {
        t.push_str(&format!("T{:02}:{:02}:{:02}{}", r.hour, r.minute, r.second, FRACS[r.frac as usize]));
        match r.off_kind {
            1 => t.push('Z'),
            2 => {
                t.push(if r.off_neg { '-' } else { '+' });
                t.push_str(&format!("{:02}:{:02}", r.off_hour, r.off_minute));
                if r.off_second != 0 {
                    t.push_str(&format!(":{:02}", r.off_second));
                }
            }
            _ => {}
        }
    }
    match r.tz_kind {
        1 => t.push_str("[UTC]"),
        2 => t.push_str("[!UTC]"),
        _ => {}
    }
    for i in 0..(r.n_ann as usize) {
        t.push('[');
        if r.ann_crit[i] {
            t.push('!');
        }
        t.push_str(if r.ann_uca[i] { "u-ca=" } else { "x-k=" });
        t.push_str(if r.ann_val[i] == 0 { "iso8601" } else { "gregory" });
        t.push(']');
    }
    t
}

#[cfg(kani)]
pub mod stub {
    //! the nondeterministic stand-in for `IxdtfParser::parse_with_annotation_handler`
    use super::Rec;
    use ixdtf::parsers::records::*;
    use ixdtf::parsers::IxdtfParser;
    use ixdtf::ParserResult;

    pub static mut CURRENT: Option<Rec> = None;

    fn harvest<'a>() -> (Option<Annotation<'a>>, Option<TimeZoneAnnotation<'a>>, Option<Fraction>, Option<Fraction>, Option<Fraction>) {
        // real parses of fixed text through entry points that are NOT stubbed in these harnesses yield values of the
        // non-exhaustive record types, whose public fields are then overwritten
        let mut ann: Option<Annotation<'static>> = None;
        let tz = IxdtfParser::from_str("00:00[UTC][u-ca=iso8601]")
            .parse_time_with_annotation_handler(|a| {
                ann = Some(a.clone());
                Some(a)
            })
            .ok()
            .and_then(|r| r.tz);
        let f1 = IxdtfParser::from_str("00:00:00.5").parse_time().ok().and_then(|r| r.time).and_then(|t| t.fraction);
        let f2 = IxdtfParser::from_str("00:00:00.123456789").parse_time().ok().and_then(|r| r.time).and_then(|t| t.fraction);
        let f3 = IxdtfParser::from_str("00:00:00.1234567891").parse_time().ok().and_then(|r| r.time).and_then(|t| t.fraction);
        (ann, tz, f1, f2, f3)
    }

    pub fn arb_record<'a>(
        _p: &mut IxdtfParser<'a>,
        mut handler: impl FnMut(Annotation<'a>) -> Option<Annotation<'a>>,
    ) -> ParserResult<IxdtfParseRecord<'a>> {
        let r = unsafe { CURRENT.unwrap_or_default() };
        let (ann, tz, f1, f2, f3) = harvest();
        let frac = |k: u8| match k {
            1 => f1,
            2 => f2,
            3 => f3,
            _ => None,
        };
        let mut rec = IxdtfParseRecord::default();
        rec.date = Some(DateRecord { year: r.year, month: r.month, day: r.day });
        if r.has_time {
            rec.time = Some(TimeRecord { hour: r.hour, minute: r.minute, second: r.second, fraction: frac(r.frac) });
            rec.offset = match r.off_kind {
                1 => Some(UtcOffsetRecordOrZ::Z),
                2 => {
                    let mut o = UtcOffsetRecord::zero();
                    o.sign = if r.off_neg { Sign::Negative } else { Sign::Positive };
                    o.hour = r.off_hour;
                    o.minute = r.off_minute;
                    o.second = r.off_second;
                    Some(UtcOffsetRecordOrZ::Offset(o))
                }
                _ => None,
            };
        }
        if r.tz_kind != 0 {
            if let Some(mut t) = tz {
                t.critical = r.tz_kind == 2;
                t.tz = TimeZoneRecord::Name(b"UTC");
                rec.tz = Some(t);
            }
        }
        // annotations are handed to the caller's handler in order; an unknown critical annotation the handler does
        // not consume is an error of the generic parser itself
        for i in 0..(r.n_ann as usize) {
            if let Some(mut a) = ann.clone() {
                a.critical = r.ann_crit[i];
                a.key = if r.ann_uca[i] { b"u-ca" } else { b"x-k" };
                a.value = if r.ann_val[i] == 0 { b"iso8601" } else { b"gregory" };
                if let Some(left) = handler(a) {
                    if left.critical {
                        return Err(ixdtf::ParseError::UnrecognizedCritical);
                    }
                }
            }
        }
        Ok(rec)
    }
}

/// run the type's real FromStr on the record: under Kani through the stub, natively on the rendered text
fn parse_with<T: FromStr>(r: &Rec) -> Result<T, T::Err> {
    #[cfg(kani)]
    {
        unsafe {
            stub::CURRENT = Some(*r);
        }
        T::from_str("2000-01-01T00:00:00Z")
    }
    #[cfg(not(kani))]
    {
        T::from_str(&render(r))
    }
}

fn calendar_conflict(r: &Rec) -> bool {
    // two calendar annotations, at least one of them critical
    let mut n = 0;
    let mut crit = false;
    for i in 0..(r.n_ann as usize) {
        if r.ann_uca[i] {
            n += 1;
            crit |= r.ann_crit[i];
        }
    }
    n >= 2 && crit
}

fn unknown_critical(r: &Rec) -> bool {
    (0..(r.n_ann as usize)).any(|i| !r.ann_uca[i] && r.ann_crit[i])
}

/// Instant: offset or Z required, leap second reads as :59, <= 9 fraction digits, value = fields shifted by the offset
pub fn instant_from_record<S: Src>(s: &mut S, ylo: i32, yhi: i32) {
    let r = any_rec(s, ylo, yhi);
    let got: Result<Instant, _> = parse_with::<Instant>(&r);
    let rejected_by_rules = !r.has_time || r.off_kind == 0 || r.frac == 3 || unknown_critical(&r) || calendar_conflict(&r);
    let sec = r.second.min(59) as i128;
    let local = (ref_epoch_days(r.year, r.month, r.day) as i128) * NS_DAY
        + ((r.hour as i128 * 60 + r.minute as i128) * 60 + sec) * 1_000_000_000
        + FRAC_NS[r.frac as usize] as i128;
    let off = if r.off_kind == 2 {
        (if r.off_neg { -1i128 } else { 1 }) * ((r.off_hour as i128 * 60 + r.off_minute as i128) * 60 + r.off_second as i128) * 1_000_000_000
    } else {
        0
    };
    let want = local - off;
    let in_range = want.abs() <= 8_640_000_000_000_000_000_000;
    vcover!(s, "C12.instant.leap_second_reachable", r.has_time && r.second == 60 && !rejected_by_rules);
    vcover!(s, "C12.instant.offset_with_seconds_reachable", r.off_kind == 2 && r.off_second != 0 && !rejected_by_rules);
    match got {
        Ok(i) => {
            vassert!(s, "C12.instant.rejects_what_the_grammar_rules_forbid", !rejected_by_rules);
            if !rejected_by_rules {
                vassert!(s, "C12.instant.value_is_the_one_the_grammar_assigns", i.as_i128() == want);
            }
        }
        Err(e) => {
            vassert!(s, "C12.instant.accepts_well_formed_instant_strings", rejected_by_rules || !in_range);
            vassert!(s, "C12.instant.rejection_is_range_error", e.kind() == ErrorKind::Range);
        }
    }
}

crate::harnesses_stubbed! { REGISTRY;
    c12r_instant_from_record [unwind 12] [stub ixdtf::parsers::IxdtfParser::parse_with_annotation_handler => crate::c12r::stub::arb_record] = |s| instant_from_record(s, 1969, 1972);
}
