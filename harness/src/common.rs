//! Shared generators and independent reference definitions (written from the Temporal
//! specification / proleptic Gregorian rules, not from the implementation's formulae).
use crate::src::Src;
use temporal_rs::iso::{IsoDate, IsoTime};
use temporal_rs::options::{RoundingMode, Unit};

pub const NS_DAY: i128 = 86_400_000_000_000;

pub fn any_mode<S: Src>(s: &mut S) -> RoundingMode {
    mode_of(s.u8_in(0, 8))
}

pub fn mode_of(m: u8) -> RoundingMode {
    match m {
        0 => RoundingMode::Ceil,
        1 => RoundingMode::Floor,
        2 => RoundingMode::Expand,
        3 => RoundingMode::Trunc,
        4 => RoundingMode::HalfCeil,
        5 => RoundingMode::HalfFloor,
        6 => RoundingMode::HalfExpand,
        7 => RoundingMode::HalfTrunc,
        _ => RoundingMode::HalfEven,
    }
}

pub fn mode_idx(m: RoundingMode) -> u8 {
    match m {
        RoundingMode::Ceil => 0,
        RoundingMode::Floor => 1,
        RoundingMode::Expand => 2,
        RoundingMode::Trunc => 3,
        RoundingMode::HalfCeil => 4,
        RoundingMode::HalfFloor => 5,
        RoundingMode::HalfExpand => 6,
        RoundingMode::HalfTrunc => 7,
        RoundingMode::HalfEven => 8,
    }
}

/// Spec table: NegateRoundingMode.
pub fn ref_negate(m: u8) -> u8 {
    match m {
        0 => 1,
        1 => 0,
        4 => 5,
        5 => 4,
        x => x,
    }
}

pub fn unit_of(u: u8) -> Unit {
    match u {
        0 => Unit::Auto,
        1 => Unit::Nanosecond,
        2 => Unit::Microsecond,
        3 => Unit::Millisecond,
        4 => Unit::Second,
        5 => Unit::Minute,
        6 => Unit::Hour,
        7 => Unit::Day,
        8 => Unit::Week,
        9 => Unit::Month,
        _ => Unit::Year,
    }
}

pub fn unit_idx(u: Unit) -> u8 {
    match u {
        Unit::Auto => 0,
        Unit::Nanosecond => 1,
        Unit::Microsecond => 2,
        Unit::Millisecond => 3,
        Unit::Second => 4,
        Unit::Minute => 5,
        Unit::Hour => 6,
        Unit::Day => 7,
        Unit::Week => 8,
        Unit::Month => 9,
        Unit::Year => 10,
    }
}

/// Length of a time unit in ns (reference table, Temporal Table 22).
pub const fn unit_ns(u: u8) -> i128 {
    match u {
        1 => 1,
        2 => 1_000,
        3 => 1_000_000,
        4 => 1_000_000_000,
        5 => 60_000_000_000,
        6 => 3_600_000_000_000,
        7 => 86_400_000_000_000,
        _ => 0,
    }
}

/// RoundNumberToIncrement, written directly from the mode definitions on exact integers.
pub fn ref_round(x: i128, inc: i128, mode: u8) -> i128 {
    let q = x.div_euclid(inc);
    let r = x.rem_euclid(inc);
    if r == 0 {
        return x;
    }
    let lo = q * inc; // lo < x < hi
    let hi = lo + inc;
    let pos = x > 0;
    let away = if pos { hi } else { lo };
    let toward = if pos { lo } else { hi };
    match mode {
        0 => hi,
        1 => lo,
        2 => away,
        3 => toward,
        _ => {
            let twice = 2 * r;
            if twice < inc {
                lo
            } else if twice > inc {
                hi
            } else {
                match mode {
                    4 => hi,
                    5 => lo,
                    6 => away,
                    7 => toward,
                    _ => {
                        if q.rem_euclid(2) == 0 {
                            lo
                        } else {
                            hi
                        }
                    }
                }
            }
        }
    }
}

/// An arbitrary valid wall-clock time, built by field assignment.
pub fn any_time<S: Src>(s: &mut S) -> IsoTime {
    let mut t = IsoTime::default();
    t.hour = s.u8_in(0, 23);
    t.minute = s.u8_in(0, 59);
    t.second = s.u8_in(0, 59);
    t.millisecond = s.u16_in(0, 999);
    t.microsecond = s.u16_in(0, 999);
    t.nanosecond = s.u16_in(0, 999);
    t
}

pub fn time_ns(t: &IsoTime) -> i128 {
    ((((t.hour as i128 * 60 + t.minute as i128) * 60 + t.second as i128) * 1000
        + t.millisecond as i128)
        * 1000
        + t.microsecond as i128)
        * 1000
        + t.nanosecond as i128
}

pub fn ref_leap(y: i32) -> bool {
    (y % 4 == 0 && y % 100 != 0) || y % 400 == 0
}

pub fn ref_dim(y: i32, m: u8) -> u8 {
    match m {
        1 | 3 | 5 | 7 | 8 | 10 | 12 => 31,
        4 | 6 | 9 | 11 => 30,
        _ => {
            if ref_leap(y) {
                29
            } else {
                28
            }
        }
    }
}

/// Arbitrary valid ISO date with year in ylo..=yhi, built by field assignment.
pub fn any_date_in<S: Src>(s: &mut S, ylo: i32, yhi: i32) -> IsoDate {
    let mut d = IsoDate::default();
    d.year = s.i32_in(ylo, yhi);
    d.month = s.u8_in(1, 12);
    d.day = s.u8_in(1, 31);
    s.assume(d.day <= ref_dim(d.year, d.month));
    d
}

/// Days from 1970-01-01 by the classical civil-from-days counting (independent of
/// Neri-Schneider): whole years by the 4/100/400 rule, then cumulative month lengths.
pub fn ref_epoch_days(y: i32, m: u8, d: u8) -> i64 {
    let y = y as i64;
    let y1 = y - 1;
    // days before Jan 1 of year y, counted from 0001-01-01
    let before = 365 * y1 + y1.div_euclid(4) - y1.div_euclid(100) + y1.div_euclid(400);
    let cum: [i64; 12] = [0, 31, 59, 90, 120, 151, 181, 212, 243, 273, 304, 334];
    let leap = (y % 4 == 0 && y % 100 != 0) || y % 400 == 0;
    let mut n = before + cum[(m - 1) as usize] + (d as i64 - 1);
    if leap && m > 2 {
        n += 1;
    }
    n - 719_162 // days from 0001-01-01 to 1970-01-01
}
