//! C14 — ZonedDateTime arithmetic is wall-clock for dates, exact for times (synthetic solver-chosen zones, see c13).
use crate::c13::*;
use crate::src::Src;
use crate::{vassert, vcover};
use temporal_rs::primitive::FiniteF64;
use temporal_rs::time::EpochNanoseconds;
use temporal_rs::{Duration, Instant, TimeZone, ZonedDateTime};

fn zdt_at(e: i128) -> Option<ZonedDateTime> {
    let en = EpochNanoseconds::try_from(e).ok()?;
    Some(Instant::from(en).to_zoned_date_time_iso(TimeZone::IanaIdentifier(String::from("Syn/Zone"))))
}

/// the compatible resolution of a local time in the one-transition zone (see c13::wall_to_instant)
fn compatible(zone: &OneTransition, l: i128) -> i128 {
    match zone.candidates(l) {
        (Some(x), None) | (None, Some(x)) => x,
        (Some(x), Some(y)) => x.min(y),
        (None, None) => l - (zone.before as i128) * NS,
    }
}

/// first instant of the local calendar day that starts at local midnight `l0`
fn start_of_local_day(zone: &OneTransition, l0: i128) -> i128 {
    match zone.candidates(l0) {
        (Some(x), Some(y)) => x.min(y),
        (Some(x), None) | (None, Some(x)) => x,
        // midnight itself is skipped: the day starts at the transition
        (None, None) => (zone.t as i128) * NS,
    }
}

fn any_instant_near<S: Src>(s: &mut S) -> i128 {
    (BASE_DAY as i128) * DAY_NS + s.i128_in(0, DAY_NS - 1)
}

/// start_of_day and hours_in_day
pub fn day_length<S: Src>(s: &mut S, max_offset_s: i64) {
    let zone = any_zone(s, max_offset_s);
    // whole-hour offsets so that the length of the day is a whole number of hours
    s.assume(zone.before % 3600 == 0 && zone.after % 3600 == 0);
    let e = any_instant_near(s);
    let local = e + (zone.offset_at(e) as i128) * NS;
    let l0 = local.div_euclid(DAY_NS) * DAY_NS;
    let want_start = start_of_local_day(&zone, l0);
    let want_next = start_of_local_day(&zone, l0 + DAY_NS);
    let provider = SynProvider { zone, base_day: BASE_DAY, base: base_date() };
    let Some(z) = zdt_at(e) else { return };
    vcover!(s, "C14.day.transition_inside_this_day", want_next - want_start != DAY_NS);
    match z.start_of_day_with_provider(&provider) {
        Ok(sd) => {
            vassert!(s, "C14.day.start_of_day_is_first_instant_of_local_day", sd.epoch_nanoseconds().as_i128() == want_start);
            core::mem::forget(sd);
        }
        Err(_) => vassert!(s, "C14.day.start_of_day_succeeds", false),
    }
    match z.hours_in_day_with_provider(&provider) {
        Ok(hh) => {
            let len = want_next - want_start;
            if len > 0 && len % (3600 * NS) == 0 && len / (3600 * NS) <= 255 {
                vassert!(s, "C14.day.hours_in_day_is_real_length", (hh as i128) == len / (3600 * NS));
            }
        }
        Err(_) => vassert!(s, "C14.day.hours_in_day_succeeds", false),
    }
    core::mem::forget(z);
}

/// add: date units on the wall clock (compatible re-resolution), time units on the exact timeline
pub fn add_days_hours<S: Src>(s: &mut S, max_offset_s: i64) {
    let zone = any_zone(s, max_offset_s);
    let e = any_instant_near(s);
    let days = s.i32_in(-2, 2);
    let hours = s.i32_in(-30, 30);
    s.assume((days >= 0 && hours >= 0) || (days <= 0 && hours <= 0));
    let f = |v: i32| FiniteF64::from(v);
    let z0 = FiniteF64::default();
    let Ok(d) = Duration::new(z0, z0, z0, f(days), f(hours), z0, z0, z0, z0, z0) else { return };
    let want = if days == 0 {
        e + (hours as i128) * 3600 * NS
    } else {
        let local = e + (zone.offset_at(e) as i128) * NS;
        compatible(&zone, local + (days as i128) * DAY_NS) + (hours as i128) * 3600 * NS
    };
    let provider = SynProvider { zone, base_day: BASE_DAY, base: base_date() };
    let Some(z) = zdt_at(e) else { return };
    vcover!(s, "C14.add.crosses_transition", days != 0 && provider.zone.offset_at(e) != provider.zone.offset_at(want));
    match z.add_with_provider(&d, None, &provider) {
        Ok(r) => {
            vassert!(s, "C14.add.wall_clock_days_then_exact_time", r.epoch_nanoseconds().as_i128() == want);
            core::mem::forget(r);
        }
        Err(_) => vassert!(s, "C14.add.succeeds_inside_range", false),
    }
    core::mem::forget(z);
}

crate::harnesses! { REGISTRY;
    c14_day_length_12h [unwind 12] = |s| day_length(s, 12 * 3600);
    c14_add_days_hours_3h [unwind 12] = |s| add_days_hours(s, 3 * 3600);
}
