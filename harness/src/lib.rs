//! Verification harness crate for temporal_rs (Engine K: Kani/CBMC; native replay).
#![allow(clippy::all)]
pub mod src;
pub mod common;
pub mod c01;
pub mod c04;
pub mod c06;
pub mod c07;
pub mod c09;
pub mod c10;
pub mod c11;
pub mod c12;
pub mod c12r;
pub mod c13;
pub mod c14;
pub mod c15;
pub mod c16;
pub mod c17;
pub mod c18;
pub mod c19;

pub fn registry() -> Vec<(&'static str, src::ReplayFn)> {
    let mut v = Vec::new();
    v.extend_from_slice(c01::REGISTRY);
    v.extend_from_slice(c04::REGISTRY);
    v.extend_from_slice(c06::REGISTRY);
    v.extend_from_slice(c07::REGISTRY);
    v.extend_from_slice(c16::REGISTRY);
    v.extend_from_slice(c09::REGISTRY);
    v.extend_from_slice(c10::REGISTRY);
    v.extend_from_slice(c11::REGISTRY);
    v.extend_from_slice(c12::REGISTRY);
    v.extend_from_slice(c12r::REGISTRY);
    v.extend_from_slice(c13::REGISTRY);
    v.extend_from_slice(c14::REGISTRY);
    v.extend_from_slice(c15::REGISTRY);
    v.extend_from_slice(c17::REGISTRY);
    v.extend_from_slice(c18::REGISTRY);
    v.extend_from_slice(c19::REGISTRY);
    v
}
