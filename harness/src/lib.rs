//! Verification harness crate for temporal_rs (Engine K: Kani/CBMC; native replay).
#![allow(clippy::all)]
pub mod src;
pub mod common;
pub mod c07;
pub mod c09;
pub mod c10;
pub mod c12;
pub mod c13;
pub mod c15;
pub mod c17;
pub mod c18;

pub fn registry() -> Vec<(&'static str, src::ReplayFn)> {
    let mut v = Vec::new();
    v.extend_from_slice(c07::REGISTRY);
    v.extend_from_slice(c09::REGISTRY);
    v.extend_from_slice(c10::REGISTRY);
    v.extend_from_slice(c12::REGISTRY);
    v.extend_from_slice(c13::REGISTRY);
    v.extend_from_slice(c15::REGISTRY);
    v.extend_from_slice(c17::REGISTRY);
    v.extend_from_slice(c18::REGISTRY);
    v
}
