//! Verification harness crate for temporal_rs (Engine K: Kani/CBMC; native replay).
#![allow(clippy::all)]
pub mod src;
pub mod common;
pub mod c07;

pub fn registry() -> Vec<(&'static str, src::ReplayFn)> {
    let mut v = Vec::new();
    v.extend_from_slice(c07::REGISTRY);
    v
}
