//! C06 (Engine-K part) — duration fields beyond the exact-double envelope of Engine M.
use crate::src::Src;
use crate::{vassert, vcover};
use temporal_rs::primitive::FiniteF64;
use temporal_rs::time::EpochNanoseconds;
use temporal_rs::{Duration, Instant};

fn ff(x: f64) -> FiniteF64 {
    FiniteF64::try_from(x).unwrap_or_default()
}

/// Instant::add with one symbolic field (index 0..=5 = hours..nanoseconds), any integral double the duration admits:
/// the sum is exact integer addition, range-checked
pub fn instant_add_one_field<S: Src>(s: &mut S, field: usize) {
    let unit: [i128; 6] = [3_600_000_000_000, 60_000_000_000, 1_000_000_000, 1_000_000, 1_000, 1];
    let e = s.i128_in(-8_640_000_000_000_000_000_000, 8_640_000_000_000_000_000_000);
    let v = s.f64();
    s.assume(v.is_finite() && v == v.trunc() && v.abs() < 9.0e24);
    let mut f = [0.0f64; 6];
    f[field] = v;
    let z = FiniteF64::default();
    let Ok(d) = Duration::new(z, z, z, z, ff(f[0]), ff(f[1]), ff(f[2]), ff(f[3]), ff(f[4]), ff(f[5])) else { return };
    let Ok(en) = EpochNanoseconds::try_from(e) else { return };
    let total = (v as i128) * unit[field];
    let want = e + total;
    let in_range = want.abs() <= 8_640_000_000_000_000_000_000;
    if field >= 3 {
        vcover!(s, "C06.instant_add.field_above_2_53", v.abs() > 9_007_199_254_740_992.0);
    }
    vcover!(s, "C06.instant_add.reach", true);
    match Instant::from(en).add(d) {
        Ok(r) => {
            vassert!(s, "C06.instant_add.range_checked", in_range);
            vassert!(s, "C06.instant_add.exact_integer_sum", r.as_i128() == want);
        }
        Err(_) => vassert!(s, "C06.instant_add.in_range_sum_succeeds", !in_range),
    }
}

crate::harnesses! { REGISTRY;
    c06_instant_add_seconds [unwind 12] = |s| instant_add_one_field(s, 2);
    c06_instant_add_nanoseconds [unwind 12] = |s| instant_add_one_field(s, 5);
    c06_instant_add_hours [unwind 12] = |s| instant_add_one_field(s, 0);
}
