#!/bin/bash
# One-time setup after a fresh restore (offline): build what every check shares.
set -e
HERE="$(cd "$(dirname "${BASH_SOURCE[0]}")" && pwd)"
export CARGO_NET_OFFLINE=true
mkdir -p "$HERE/.build" "$HERE/evidence" "$HERE/replays"
cp /repo/Cargo.lock "$HERE/harness/Cargo.lock"
# native replay / runner binaries (dev + release) from /repo's current tree
(cd "$HERE/harness" && cargo build --offline --bin mrun --bin replay --target-dir "$HERE/.build/native" >/dev/null 2>&1 || true)
(cd "$HERE/harness" && cargo build --offline --release --bin mrun --bin replay --target-dir "$HERE/.build/native" >/dev/null 2>&1 || true)
# MIR dump of the current tree (Engine M) and Kani dependency build (Engine K)
python3-vt - <<'PY'
import sys
sys.path.insert(0, "/verif/lib")
from mirsmt import dump
print("MIR dump:", dump.get_dump(True)[0])
PY
(cd "$HERE/harness" && cargo kani -Z stubbing --only-codegen --target-dir "$HERE/.build/k0" >/dev/null 2>&1 || true)
echo "setup done"
